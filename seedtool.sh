#!/bin/bash
# seedtool.sh confirm <dir-with-patch.diff,meta.json,demo>   : confirm a seeded change in a scratch worktree (dynamic, triage only)
# seedtool.sh detect  <patch.diff> [props...]                : run the static checks against a scratch worktree with the patch applied
# Scratch worktrees live under /tmp/mut and are removed afterwards. /repo itself is never modified.
export GOFLAGS=-mod=mod GOPROXY=off GOSUMDB=off GOTOOLCHAIN=local GOWORK=off
set -u
cmd=$1; shift
mk() { rm -rf "$1"; git -C /repo worktree prune; git -C /repo worktree add --detach "$1" HEAD >/dev/null 2>&1; }
rmw() { git -C /repo worktree remove --force "$1" >/dev/null 2>&1; rm -rf "$1"; }
case $cmd in
confirm)
  d=$1; id=$(basename $(dirname $d))-$(basename $d); w=/tmp/mut/c-$id; mkdir -p /tmp/mut; mk $w
  place=$(python3 -c "import json;print(json.load(open('$d/meta.json')).get('demo_place',''))")
  dcmd=$(python3 -c "import json;print(json.load(open('$d/meta.json')).get('demo_cmd',''))")
  echo "== $id place=$place cmd=$dcmd"
  ( cd $w && git apply $d/patch.diff ) || { echo "CONFIRM $id: patch does not apply"; rmw $w; exit 1; }
  ( cd $w && go build ./... && go vet ./... ) >/tmp/mut/$id.build 2>&1 || { echo "CONFIRM $id: build/vet fails"; rmw $w; exit 1; }
  ( cd $w && go test -count=1 ./... ) >/tmp/mut/$id.suite 2>&1; s=$?
  [ $s -eq 0 ] || { echo "CONFIRM $id: suite FAILS with patch"; tail -5 /tmp/mut/$id.suite; rmw $w; exit 1; }
  # demo files: every non-patch, non-meta file; placed in fs/ when demo_place says so, else in the repo root
  sub=""; case "$place" in fs/*) sub=fs;; esac
  for f in $d/*; do b=$(basename $f); case $b in patch.diff|meta.json) ;; *) if [ -d $f ]; then cp -r $f/. $w/$b/; else cp $f $w/$sub/$b; fi;; esac; done
  dcmd2=$(echo "$dcmd" | grep -o 'go test.*' | head -1)
  ( cd $w && eval "$dcmd2" ) >/tmp/mut/$id.demo1 2>&1; d1=$?
  ( cd $w && git apply -R $d/patch.diff ) || echo revert-failed
  ( cd $w && eval "$dcmd2" ) >/tmp/mut/$id.demo0 2>&1; d0=$?
  echo "CONFIRM $id: suite=pass demo_with_patch=$d1 demo_without=$d0"
  rmw $w
  [ $d1 -ne 0 ] && [ $d0 -eq 0 ]
  ;;
detect)
  pf=$(realpath "$1"); shift; id=$(echo $pf | tr '/' '_'); w=/tmp/mut/d-$$; mkdir -p /tmp/mut /tmp/mut/out-$$; mk $w
  ( cd $w && git apply $pf ) || { echo "DETECT $pf: caught-by: PATCH-DOES-NOT-APPLY"; rmw $w; exit 2; }
  cp /verif/known_findings.txt /tmp/mut/out-$$/
  /verif/bin/pvcheck -repo $w -out /tmp/mut/out-$$ -property all -tier ${TIER:-quick} > /tmp/mut/out-$$/all.log 2>&1
  caught=$(grep '^ALL caught-by:' /tmp/mut/out-$$/all.log | sed 's/ALL caught-by://')
  grep -q '^ALL caught-by:' /tmp/mut/out-$$/all.log || caught=" CHECKER-ERROR($(grep -m1 -o 'fatal error: [a-z ]*\|panic: .*' /tmp/mut/out-$$/all.log | head -1))"
  grep -E "^\s+\[(violation|undecided|fatal)" /tmp/mut/out-$$/all.log | cut -c1-200 | head -${SHOW:-3}
  echo "DETECT $pf: caught-by:${caught:- NONE}"
  rmw $w; rm -rf /tmp/mut/out-$$
  ;;
esac
