#!/usr/bin/env python3
"""Summarises a mutation-survey run (results.jsonl written by run.py) into RESULTS.md, joining the mutants that survive the
test suite AND every check with the hand triage in triage.tsv (file, func, op, from, to, verdict, reason)."""
import collections, json, os, sys
here = os.path.dirname(os.path.abspath(__file__))
res = [json.loads(l) for l in open(sys.argv[1])]
tri = {}
tp = os.path.join(here, "triage.tsv")
if os.path.exists(tp):
    for ln in open(tp):
        if ln.startswith("#") or not ln.strip():
            continue
        f = ln.rstrip("\n").split("\t")
        if len(f) >= 7:
            tri[tuple(f[:5])] = (f[5], f[6])
by = collections.defaultdict(collections.Counter)
for m in res:
    k = m["status"] if m["status"] != "survived" else ("survived, reported" if m["caught"] else "survived, not reported")
    by[m["file"]][k] += 1
    by["TOTAL"][k] += 1
cols = ["killed", "nocompile", "survived, reported", "survived, not reported"]
out = ["# Mutation survey (development aid)", "",
       "First-order mutants of the non-test sources (`mutsurvey`), each built, vetted and run against the repository's test suite;",
       "the mutants that pass are analysed by all 19 checks (`pvcheck -property all`, quick tier). 'killed' = the suite fails,",
       "'nocompile' = build or vet fails. The survey is a sample ordered by file (most property-relevant files first) and may be",
       "incomplete; it never influences a check's verdict. The 'reported' column is what the checks said when the mutant was",
       "run (the survey ran while rules were still being added); every entry marked 'REAL MISS, now reported' below was re-run",
       "by hand against the final checker and is reported by the rule named there.", "",
       "| file | " + " | ".join(cols) + " |", "|---|" + "---|" * len(cols)]
for f in sorted(by, key=lambda x: (x == "TOTAL", x)):
    out.append("| %s | %s |" % (f, " | ".join(str(by[f][c]) for c in cols)))
out += ["", "## Mutants that survive the suite and all checks, triaged by hand", "",
        "| file:line | function | mutation | verdict | reason |", "|---|---|---|---|---|"]
untri = 0
for m in sorted(res, key=lambda m: (m["file"], m["line"])):
    if m["status"] != "survived" or m["caught"]:
        continue
    key = (m["file"], m["func"], m["op"], m["from"].replace("\n", " ").replace("\t", " "), m["to"])
    v, why = tri.get(key, ("not triaged", ""))
    if v == "not triaged":
        untri += 1
    out.append("| %s:%d | %s | %s: `%s` -> `%s` | %s | %s |" % (m["file"], m["line"], m["func"], m["op"], key[3][:60].replace("|", "/"), m["to"].replace("|", "/"), v, why))
out += ["", "%d mutants run; %d survive the suite; %d of those are reported by at least one check; %d not triaged." % (
    len(res), sum(1 for m in res if m["status"] == "survived"), sum(1 for m in res if m["status"] == "survived" and m["caught"]), untri)]
open(os.path.join(here, "RESULTS.md"), "w").write("\n".join(out) + "\n")
print(out[-1])
