module mutsurvey

go 1.21
