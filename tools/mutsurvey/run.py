#!/usr/bin/env python3
"""Runs the mutants written by mutsurvey: build, the repository's test suite, and - for the survivors - the static checks.
Development aid (self-assessment of the checker); results go to <dir>/results.jsonl. Usage: run.py <mutant dir> [jobs]"""
import json, os, shutil, subprocess, sys, threading
from concurrent.futures import ThreadPoolExecutor
root = sys.argv[1]
jobs = int(sys.argv[2]) if len(sys.argv) > 2 else 4
repo = os.environ.get("VERIF_REPO", "/repo")
env = dict(os.environ, GOFLAGS="-mod=mod", GOPROXY="off", GOSUMDB="off", GOTOOLCHAIN="local", GOWORK="off")
lock = threading.Lock()
done = set()
res_path = os.path.join(root, "results.jsonl")
if os.path.exists(res_path):
    for ln in open(res_path):
        try:
            done.add(json.loads(ln)["id"])
        except Exception:
            pass

def one(mid):
    if mid in done:
        return
    d = os.path.join(root, "m", mid)
    meta = json.load(open(os.path.join(d, "meta.json")))
    if any(s in meta["file"] for s in ("windows", "plan9")):
        return
    w = os.path.join(root, "w", mid)
    shutil.rmtree(w, ignore_errors=True)
    shutil.copytree(repo, w, ignore=shutil.ignore_patterns(".git"))
    shutil.copy(os.path.join(d, "file"), os.path.join(w, meta["file"]))
    status, caught = "survived", None
    try:
        r = subprocess.run("go build ./... && go vet ./...", shell=True, cwd=w, env=env, capture_output=True, timeout=300)
        if r.returncode != 0:
            status = "nocompile"
        else:
            try:
                r = subprocess.run("go test -vet=off -count=1 -timeout 180s ./...", shell=True, cwd=w, env=env, capture_output=True, timeout=400)
                if r.returncode != 0:
                    status = "killed"
            except subprocess.TimeoutExpired:
                status = "killed"
        if status == "survived":
            out = os.path.join(root, "w", mid + "-out")
            os.makedirs(out, exist_ok=True)
            shutil.copy("/verif/known_findings.txt", out)
            r = subprocess.run([os.environ.get("PVCHECK", "/verif/bin/pvcheck"), "-repo", w, "-out", out, "-property", "all", "-tier", "quick"], capture_output=True, text=True, timeout=1800)
            caught = "CHECKER-ERROR"
            rules = []
            for ln in r.stdout.splitlines() + r.stderr.splitlines():
                if ln.startswith("ALL caught-by:"):
                    caught = ln[len("ALL caught-by:"):].split()
                if "[violation]" in ln or "[undecided]" in ln:
                    rules.append(ln.strip()[:160])
            meta["rules"] = rules[:6]
            shutil.rmtree(out, ignore_errors=True)
    except subprocess.TimeoutExpired:
        status = "timeout"
    finally:
        shutil.rmtree(w, ignore_errors=True)
    meta.update(id=mid, status=status, caught=caught)
    with lock:
        with open(res_path, "a") as f:
            f.write(json.dumps(meta) + "\n")

ids = sorted(os.listdir(os.path.join(root, "m")))
# most property-relevant files first (the run can be stopped at any time; it resumes from results.jsonl)
prio = ["segment.go", "recovery.go", "index.go", "datalog.go", "db.go", "file.go", "iterator.go", "compaction.go", "bucket.go",
        "fs/os_unix.go", "fs/mem.go", "fs/os_mmap.go", "lock.go", "gobfile.go", "header.go", "options.go", "backup.go"]
def rank(mid):
    f = json.load(open(os.path.join(root, "m", mid, "meta.json")))["file"]
    return (prio.index(f) if f in prio else len(prio), mid)
ids.sort(key=rank)
with ThreadPoolExecutor(max_workers=jobs) as ex:
    list(ex.map(one, ids))
print("done")
