// mutsurvey generates first-order source mutants of the non-test Go files of a repository. Development aid for the
// checker's self-assessment (which surviving mutants do the static checks report?); not part of any registered check.
//
//	mutsurvey -repo /repo -out DIR     writes DIR/NNNN/{file (mutated source), meta.json}
package main

import (
	"encoding/json"
	"flag"
	"fmt"
	"go/ast"
	"go/parser"
	"go/token"
	"os"
	"path/filepath"
	"sort"
	"strconv"
	"strings"
)

type mutant struct {
	File   string `json:"file"`
	Line   int    `json:"line"`
	Func   string `json:"func"`
	Op     string `json:"op"`
	From   string `json:"from"`
	To     string `json:"to"`
	start  int
	end    int
	repl   string
}

func main() {
	repo := flag.String("repo", "/repo", "")
	out := flag.String("out", "", "")
	flag.Parse()
	var files []string
	filepath.Walk(*repo, func(p string, fi os.FileInfo, err error) error {
		if err != nil {
			return nil
		}
		if fi.IsDir() && (fi.Name() == ".git" || fi.Name() == "docs" || fi.Name() == "testdata") {
			return filepath.SkipDir
		}
		if strings.HasSuffix(p, ".go") && !strings.HasSuffix(p, "_test.go") && !strings.Contains(p, "internal/assert") {
			files = append(files, p)
		}
		return nil
	})
	sort.Strings(files)
	n := 0
	for _, f := range files {
		src, _ := os.ReadFile(f)
		fset := token.NewFileSet()
		af, err := parser.ParseFile(fset, f, src, parser.ParseComments)
		if err != nil {
			continue
		}
		rel, _ := filepath.Rel(*repo, f)
		var ms []mutant
		off := func(p token.Pos) int { return fset.Position(p).Offset }
		for _, d := range af.Decls {
			fd, ok := d.(*ast.FuncDecl)
			fname := ""
			if ok {
				fname = fd.Name.Name
				if fd.Recv != nil && len(fd.Recv.List) > 0 {
					fname = strings.TrimPrefix(exprString(src, off, fd.Recv.List[0].Type), "*") + "." + fname
				}
			}
			add := func(op string, s, e token.Pos, repl string) {
				ms = append(ms, mutant{File: rel, Line: fset.Position(s).Line, Func: fname, Op: op, From: string(src[off(s):off(e)]), To: repl, start: off(s), end: off(e), repl: repl})
			}
			ast.Inspect(d, func(nd ast.Node) bool {
				switch x := nd.(type) {
				case *ast.BinaryExpr:
					flip := map[token.Token][]string{
						token.LSS: {"<=", ">"}, token.LEQ: {"<"}, token.GTR: {">=", "<"}, token.GEQ: {">"},
						token.EQL: {"!="}, token.NEQ: {"=="}, token.LAND: {"||"}, token.LOR: {"&&"},
						token.ADD: {"-"}, token.SUB: {"+"}, token.MUL: {"/"}, token.SHL: {">>"}, token.SHR: {"<<"},
						token.AND: {"|"}, token.OR: {"&"},
					}
					if x.Op == token.ADD {
						if bl, ok := x.X.(*ast.BasicLit); ok && bl.Kind == token.STRING {
							return true
						}
						if bl, ok := x.Y.(*ast.BasicLit); ok && bl.Kind == token.STRING {
							return true
						}
					}
					for _, r := range flip[x.Op] {
						add("binop", x.OpPos, x.OpPos+token.Pos(len(x.Op.String())), r)
					}
				case *ast.BasicLit:
					if x.Kind == token.INT {
						if v, err := strconv.ParseInt(x.Value, 0, 64); err == nil {
							add("int+1", x.Pos(), x.End(), strconv.FormatInt(v+1, 10))
							if v > 0 {
								add("int-1", x.Pos(), x.End(), strconv.FormatInt(v-1, 10))
							}
						}
					}
				case *ast.Ident:
					if x.Name == "true" {
						add("bool", x.Pos(), x.End(), "false")
					} else if x.Name == "false" {
						add("bool", x.Pos(), x.End(), "true")
					}
				case *ast.UnaryExpr:
					if x.Op == token.NOT {
						add("drop-not", x.OpPos, x.OpPos+1, "")
					}
				case *ast.BranchStmt:
					if x.Label == nil {
						switch x.Tok {
						case token.BREAK:
							add("branch", x.Pos(), x.End(), "continue")
						case token.CONTINUE:
							add("branch", x.Pos(), x.End(), "break")
						}
					}
				case *ast.ExprStmt:
					if _, ok := x.X.(*ast.CallExpr); ok {
						add("del-call", x.Pos(), x.End(), "")
					}
				case *ast.DeferStmt:
					add("del-defer", x.Pos(), x.End(), "")
				case *ast.IncDecStmt:
					add("del-incdec", x.Pos(), x.End(), "")
				case *ast.AssignStmt:
					if x.Tok != token.DEFINE {
						// delete the assignment, keeping the right-hand side's calls evaluated is not attempted: plain deletion
						add("del-assign", x.Pos(), x.End(), "")
					}
					if x.Tok == token.ADD_ASSIGN {
						add("assignop", x.TokPos, x.TokPos+2, "-=")
					} else if x.Tok == token.SUB_ASSIGN {
						add("assignop", x.TokPos, x.TokPos+2, "+=")
					}
				case *ast.ReturnStmt:
					// return nil instead of the error
					if len(x.Results) > 0 {
						if id, ok := x.Results[len(x.Results)-1].(*ast.Ident); ok && (id.Name == "err" || strings.HasPrefix(id.Name, "err")) {
							add("ret-nil", id.Pos(), id.End(), "nil")
						}
					}
				case *ast.IfStmt:
					// drop an "if err != nil { return ... }" guard entirely (only when it has no else and no init)
					if x.Else == nil && x.Init == nil && len(x.Body.List) == 1 {
						if _, ok := x.Body.List[0].(*ast.ReturnStmt); ok {
							add("del-guard", x.Pos(), x.End(), "")
						}
					}
					if x.Else == nil && x.Init != nil && len(x.Body.List) == 1 {
						if _, ok := x.Body.List[0].(*ast.ReturnStmt); ok {
							// keep the call, ignore its error: "if err := f(); err != nil { return err }" -> "_ = f()" is not type-safe in general; skip
						}
					}
				}
				return true
			})
		}
		for _, m := range ms {
			n++
			dir := filepath.Join(*out, fmt.Sprintf("%04d", n))
			os.MkdirAll(dir, 0o755)
			mut := string(src[:m.start]) + m.repl + string(src[m.end:])
			os.WriteFile(filepath.Join(dir, "file"), []byte(mut), 0o644)
			b, _ := json.Marshal(m)
			os.WriteFile(filepath.Join(dir, "meta.json"), b, 0o644)
		}
	}
	fmt.Println("mutants:", n)
}

func exprString(src []byte, off func(token.Pos) int, e ast.Expr) string {
	return string(src[off(e.Pos()):off(e.End())])
}
