package main

import "fmt"

// dumpLayouts prints the extracted layouts (used once to freeze the tables, and for debugging).
func dumpLayouts(p *Program) {
	for _, k := range []string{"(pogreb.bucket).MarshalBinary", "(*pogreb.bucket).UnmarshalBinary", "(pogreb.header).MarshalBinary", "(*pogreb.header).UnmarshalBinary", "pogreb.encodeRecord", "(*pogreb.segmentIterator).next"} {
		f := p.Fn(k)
		if f == nil {
			fmt.Println("missing", k)
			continue
		}
		rows, und := extractLayout(f, recordSyms)
		fmt.Println("==", k)
		for _, r := range rows {
			fmt.Printf("\t%q,\n", r.String())
		}
		for _, u := range und {
			fmt.Println("\tUNDECIDED", u)
		}
	}
}
