package main

import (
	"strings"

	"golang.org/x/tools/go/ssa"
)

// ruleFSReadersPure: fs.File methods documented as safe for concurrent use (ReadAt, Slice, Stat) must not store to
// receiver state (they run under the shared lock from many goroutines).
func ruleFSReadersPure(r *Run, p *Program, rule string) {
	n := 0
	for _, impl := range implementsIface(p, "File") {
		for _, m := range []string{"Slice", "ReadAt", "Stat"} {
			sel := lookupMethod(impl, m)
			if sel == nil || sel.Pkg() == nil || sel.Pkg().Path() != fsPath {
				continue // promoted from *os.File
			}
			recvName := ""
			if sig := sel.Signature(); sig.Recv() != nil {
				recvName = typeName(sig.Recv().Type())
			}
			key := "(" + recvName + ")." + m
			f := p.Fn(key)
			if f == nil {
				continue
			}
			n++
			r.fn(key)
			w, _ := allNodes(p, f)
			bad := false
			for nd := range w.Reached {
				st, ok := nd.In.(*ssa.Store)
				if !ok {
					continue
				}
				fn := fieldName(st.Addr)
				if strings.HasPrefix(fn, "fs.") {
					bad = true
					r.bad(rule, key, p.Pos(st.Pos()), key+" (documented as safe for concurrent use, called under the shared lock by concurrent readers) writes receiver state "+fn+": concurrent readers overwrite each other's data")
				}
			}
			if !bad {
				r.ok(rule, key, p.Pos(f.Pos()), "no store to receiver state", true)
			}
		}
	}
	r.universe(rule, n, 3)
}
