package main

import (
	"go/token"
	"go/types"
	"strings"

	"golang.org/x/tools/go/ssa"
)

// fsEvent is an interface call on fs.File / fs.FileSystem / fs.LockFile (or os.DirEntry etc.).
type fsEvent struct {
	Iface  string // "fs.File", "fs.FileSystem", "fs.LockFile"
	Method string
	Recv   AccessPath
	Call   *ssa.CallCommon
	Node   Node
}

func nodeCall(n Node) *ssa.CallCommon {
	switch x := n.In.(type) {
	case *ssa.Call:
		return &x.Call
	case deferEvent:
		return &x.Defer.Call
	}
	return nil
}

// fsEventOf classifies node n.
func fsEventOf(n Node) *fsEvent {
	cc := nodeCall(n)
	if cc == nil || !cc.IsInvoke() {
		return nil
	}
	it := typeName(cc.Value.Type())
	switch it {
	case "fs.File", "fs.FileSystem", "fs.LockFile":
		return &fsEvent{Iface: it, Method: cc.Method.Name(), Recv: accessPath(n.Ctx, cc.Value), Call: cc, Node: n}
	}
	return nil
}

var fileMutators = map[string]bool{"Write": true, "WriteAt": true, "Truncate": true}
var fsMutators = map[string]bool{"Remove": true, "Rename": true, "OpenFile": true, "MkdirAll": true, "CreateLockFile": true}

// allNodes explores everything reachable from the entry of fn.
func allNodes(p *Program, fn *ssa.Function) (*IPWalk, *Ctx) {
	w := &IPWalk{P: p}
	root := &Ctx{Fn: fn}
	w.Run(root, nil)
	return w, root
}

// calleeOfNode returns the module function entered/called at node n ("" if none), resolving callbacks.
func calleeOfNode(w *IPWalk, n Node) string {
	cc := nodeCall(n)
	if cc == nil {
		return ""
	}
	if k := calleeKey(cc); k != "" {
		return k
	}
	if cc.IsInvoke() {
		return ""
	}
	if f, _, _ := resolveFuncValue(n.Ctx, cc.Value, 0); f != nil {
		return funcKey(f)
	}
	return ""
}

// isRootReturn reports whether n is a Return of the entry function that is not a provable failure.
func isRootSuccessReturn(n Node) bool {
	r, ok := n.In.(*ssa.Return)
	if !ok || n.Ctx.Parent != nil {
		return false
	}
	return !isFailureReturn(n.Ctx.Fn, r)
}

// isRootSuccessReturnIn additionally uses the walk's knowledge about failed callees: a return that forwards the error
// of a callee that failed on this path is not a success return.
func isRootFailureForward(w *IPWalk, n Node) bool {
	r, ok := n.In.(*ssa.Return)
	if !ok {
		return false
	}
	idx := errResultIndex(n.Ctx.Fn)
	if idx < 0 || idx >= len(r.Results) {
		return false
	}
	// every state in which the node was reached had the returned call failed
	c, _ := callResult(retOperand(r, idx))
	if c == nil {
		return false
	}
	any := false
	for k := range w.seen {
		if k.ctx == n.Ctx && k.in == n.In {
			any = true
			if k.failed != ssa.Instruction(c) {
				return false
			}
		}
	}
	return any
}

// ---------- abstract file names ----------

// nameAbs evaluates a string-valued SSA value to a pattern: literals are kept, segment names become SEG,
// directory entry names DIRENT, unknown parts "?".
func nameAbs(ctx *Ctx, v ssa.Value, d int) string {
	if d > 25 || v == nil {
		return "?"
	}
	v = strip(v)
	switch x := v.(type) {
	case *ssa.Const:
		if x.Value != nil && x.Value.Kind().String() == "String" {
			s := x.Value.ExactString()
			return strings.Trim(s, "\"")
		}
		return "?"
	case *ssa.BinOp:
		if x.Op == token.ADD {
			return nameAbs(ctx, x.X, d+1) + nameAbs(ctx, x.Y, d+1)
		}
	case *ssa.Call:
		switch calleeKey(&x.Call) {
		case "pogreb.segmentName":
			return "SEGCANON"
		case "pogreb.segmentMetaName":
			return "SEGCANON.pmt"
		case "path/filepath.Join":
			return "?"
		}
		if x.Call.IsInvoke() && x.Call.Method.Name() == "Name" {
			return "DIRENT"
		}
	case *ssa.UnOp:
		if x.Op == token.MUL {
			if fieldName(x.X) == "pogreb.segment.name" {
				return "SEGNAME"
			}
			if a, ok := x.X.(*ssa.Alloc); ok {
				st := allocStores(a)
				if len(st) == 1 {
					return nameAbs(ctx, st[0], d+1)
				}
			}
			// a field of a struct parameter spilled to a local (spec.name): resolve through the parameter object
			if fa, ok := x.X.(*ssa.FieldAddr); ok {
				if al, ok := fa.X.(*ssa.Alloc); ok {
					if st := allocStores(al); len(st) == 1 {
						if fv := structFieldValue(ctx, st[0], fa.Field); fv.v != nil {
							return nameAbs(fv.ctx, fv.v, d+1)
						}
					}
				}
			}
		}
	case *ssa.Field:
		if fieldName(x) == "pogreb.segment.name" {
			return "SEGNAME"
		}
		// a field of a parameter object: the value the caller's composite literal stored in that field
		if fv := structFieldValue(ctx, x.X, x.Field); fv.v != nil {
			return nameAbs(fv.ctx, fv.v, d+1)
		}
	case *ssa.Parameter:
		if ctx != nil && ctx.Parent != nil && ctx.Site != nil {
			cc := callOf(ctx.Site)
			idx := paramIndex(x)
			if !cc.IsInvoke() && idx >= 0 && idx < len(cc.Args) {
				return nameAbs(ctx.Parent, cc.Args[idx], d+1)
			}
		}
		return "PARAM(" + x.Name() + ")"
	case *ssa.Phi:
		var parts []string
		seen := map[string]bool{}
		for _, e := range x.Edges {
			s := nameAbs(ctx, e, d+1)
			if !seen[s] {
				seen[s] = true
				parts = append(parts, s)
			}
		}
		if len(parts) == 1 {
			return parts[0]
		}
		return "{" + strings.Join(parts, "|") + "}"
	}
	return "?"
}

type ctxVal struct {
	ctx *Ctx
	v   ssa.Value
}

// structFieldValue resolves field `field` of the struct value sv - a parameter (resolved to the caller's argument
// through the call string) or a local composite literal - to the value stored into that field.
func structFieldValue(ctx *Ctx, sv ssa.Value, field int) ctxVal {
	for d := 0; d < 6; d++ {
		sv = strip(sv)
		switch x := sv.(type) {
		case *ssa.Parameter:
			if ctx == nil || ctx.Parent == nil || ctx.Site == nil {
				return ctxVal{}
			}
			cc := callOf(ctx.Site)
			idx := paramIndex(x)
			if cc.IsInvoke() || idx < 0 || idx >= len(cc.Args) {
				return ctxVal{}
			}
			sv, ctx = cc.Args[idx], ctx.Parent
		case *ssa.UnOp:
			al, ok := x.X.(*ssa.Alloc)
			if x.Op != token.MUL || !ok || al.Referrers() == nil {
				return ctxVal{}
			}
			for _, u := range *al.Referrers() {
				fa, ok := u.(*ssa.FieldAddr)
				if !ok || fa.Field != field || fa.Referrers() == nil {
					continue
				}
				for _, w := range *fa.Referrers() {
					if st, ok := w.(*ssa.Store); ok && st.Addr == ssa.Value(fa) {
						return ctxVal{ctx, st.Val}
					}
				}
			}
			// whole-struct store into the cell
			if st := allocStores(al); len(st) == 1 {
				sv = st[0]
				continue
			}
			return ctxVal{}
		case *ssa.Call, *ssa.Extract:
			// the struct is the result of a module function: the field's value in that function's (success) returns
			call, comp := valueComponent(x)
			if call == nil {
				return ctxVal{}
			}
			g := call.Call.StaticCallee()
			if g == nil || g.Blocks == nil || !inModule(g) {
				return ctxVal{}
			}
			st, ok := sv.Type().Underlying().(*types.Struct)
			if !ok || field >= st.NumFields() {
				return ctxVal{}
			}
			want := comp + "." + st.Field(field).Name()
			var found ssa.Value
			for _, ret := range returnsOf(g) {
				if isFailureReturn(g, ret) {
					continue
				}
				v, ok := retComponents(ret)[want]
				if !ok {
					return ctxVal{}
				}
				if found != nil && found != v {
					return ctxVal{} // several different values: not resolved
				}
				found = v
			}
			if found == nil {
				return ctxVal{}
			}
			return ctxVal{&Ctx{Parent: ctx, Site: call, Fn: g}, found}
		default:
			return ctxVal{}
		}
	}
	return ctxVal{}
}

// stringArg returns the i-th argument of an invoke (receiver excluded).
func invokeArg(cc *ssa.CallCommon, i int) ssa.Value {
	if i < len(cc.Args) {
		return cc.Args[i]
	}
	return nil
}

// implementsIface lists the named types of package fs whose pointer (or value) method set implements iface.
func implementsIface(p *Program, ifaceName string) []*types.Named {
	obj := p.FS.Types.Scope().Lookup(ifaceName)
	if obj == nil {
		return nil
	}
	iface, ok := obj.Type().Underlying().(*types.Interface)
	if !ok {
		return nil
	}
	var out []*types.Named
	sc := p.FS.Types.Scope()
	for _, n := range sc.Names() {
		tn, ok := sc.Lookup(n).(*types.TypeName)
		if !ok {
			continue
		}
		named, ok := tn.Type().(*types.Named)
		if !ok || types.IsInterface(named) {
			continue
		}
		if types.Implements(types.NewPointer(named), iface) || types.Implements(named, iface) {
			out = append(out, named)
		}
	}
	return out
}

// lookupMethod resolves method name on *T (following embedding) to the *types.Func selected.
func lookupMethod(t *types.Named, name string) *types.Func {
	obj, _, _ := types.LookupFieldOrMethod(types.NewPointer(t), true, t.Obj().Pkg(), name)
	f, _ := obj.(*types.Func)
	return f
}

// deepFuncs returns fn and every module function reachable from it through the call-string walk.
func deepFuncs(p *Program, fn *ssa.Function) []*ssa.Function {
	w, _ := allNodes(p, fn)
	seen := map[*ssa.Function]bool{fn: true}
	out := []*ssa.Function{fn}
	for n := range w.Reached {
		if !seen[n.Ctx.Fn] {
			seen[n.Ctx.Fn] = true
			out = append(out, n.Ctx.Fn)
		}
	}
	return out
}

// deepInstrs visits the instructions of fn and of every module function reachable from it.
func deepInstrs(p *Program, fn *ssa.Function, f func(in ssa.Instruction)) {
	for _, g := range deepFuncs(p, fn) {
		instrsOf(g, f)
	}
}

// rootSite returns, for a node of a walk rooted at root, the instruction of the root function under which it executes.
func rootSite(n Node) ssa.Instruction {
	c := n.Ctx
	in := n.In
	for c != nil && c.Parent != nil {
		in = c.Site
		c = c.Parent
	}
	return in
}
