package main

import (
	"fmt"
	"sort"
	"strings"

	"golang.org/x/tools/go/ssa"
)

// Lock names: "mu:W", "mu:R" (DB.mu), "maint" (DB.maintenanceMu), "iter" (ItemIterator.mu), "OPEN" (virtual: DB not yet published).

func lockSetParse(s string) map[string]bool {
	m := map[string]bool{}
	for _, p := range strings.Split(s, ",") {
		if p != "" {
			m[p] = true
		}
	}
	return m
}

func lockSetString(m map[string]bool) string {
	var ks []string
	for k, v := range m {
		if v {
			ks = append(ks, k)
		}
	}
	sort.Strings(ks)
	return strings.Join(ks, ",")
}

// lockOp classifies a call as an operation on one of the package's mutexes.
// returns lock ("mu","maint","iter"), op ("Lock","RLock","Unlock","RUnlock","TryLock") or "".
func lockOp(cc *ssa.CallCommon) (string, string) {
	if cc == nil || cc.IsInvoke() {
		return "", ""
	}
	k := calleeKey(cc)
	var op string
	switch k {
	case "(*sync.RWMutex).Lock", "(*sync.Mutex).Lock":
		op = "Lock"
	case "(*sync.RWMutex).RLock":
		op = "RLock"
	case "(*sync.RWMutex).Unlock", "(*sync.Mutex).Unlock":
		op = "Unlock"
	case "(*sync.RWMutex).RUnlock":
		op = "RUnlock"
	case "(*sync.RWMutex).TryLock", "(*sync.Mutex).TryLock":
		op = "TryLock"
	case "(*sync.RWMutex).TryRLock":
		op = "TryRLock"
	default:
		return "", ""
	}
	if len(cc.Args) == 0 {
		return "", ""
	}
	switch fieldName(cc.Args[0]) {
	case "pogreb.DB.mu":
		return "mu", op
	case "pogreb.DB.maintenanceMu":
		return "maint", op
	case "pogreb.ItemIterator.mu":
		return "iter", op
	}
	return "?", op
}

// lockTransfer is the IPWalk transfer function for locksets.
func lockTransfer(n Node, st string) string {
	cc := nodeCall(n)
	if cc == nil {
		return st
	}
	if _, isDeferReg := n.In.(*ssa.Defer); isDeferReg {
		return st // registration only; executed as deferEvent at RunDefers
	}
	l, op := lockOp(cc)
	if l == "" {
		return st
	}
	m := lockSetParse(st)
	dropAcq := func() {
		for k := range m {
			if strings.HasPrefix(k, "acq@") {
				delete(m, k)
			}
		}
	}
	switch l + "." + op {
	case "mu.Lock":
		m["mu:W"] = true
		m[fmt.Sprintf("acq@%d", n.In.Pos())] = true // which acquisition of DB.mu governs this point
	case "mu.RLock":
		m["mu:R"] = true
		m[fmt.Sprintf("acq@%d", n.In.Pos())] = true
	case "mu.Unlock":
		delete(m, "mu:W")
		dropAcq()
	case "mu.RUnlock":
		delete(m, "mu:R")
		dropAcq()
	case "maint.Lock":
		m["maint"] = true
	case "maint.Unlock":
		delete(m, "maint")
	case "iter.Lock":
		m["iter"] = true
	case "iter.Unlock":
		delete(m, "iter")
	}
	return lockSetString(m)
}

// lockEdgeTransfer adds a lock on the edge where TryLock's result is true.
func lockEdgeTransfer(ctx *Ctx, b *ssa.BasicBlock, k int, st string) string {
	c := edgeCond(b, k)
	if c == nil || !c.Pos {
		return st
	}
	call, ok := strip(c.V).(*ssa.Call)
	if !ok {
		return st
	}
	l, op := lockOp(&call.Call)
	if op != "TryLock" && op != "TryRLock" {
		return st
	}
	m := lockSetParse(st)
	switch l {
	case "mu":
		if op == "TryLock" {
			m["mu:W"] = true
		} else {
			m["mu:R"] = true
		}
	case "maint":
		m["maint"] = true
	case "iter":
		m["iter"] = true
	}
	return lockSetString(m)
}

// lockWalk runs the lockset analysis from entry function key with the initial lockset.
func lockWalk(p *Program, fn *ssa.Function, init string) (*IPWalk, *Ctx) {
	w := &IPWalk{P: p, Init: init, Transfer: lockTransfer, EdgeTransfer: lockEdgeTransfer}
	root := &Ctx{Fn: fn}
	w.Run(root, nil)
	return w, root
}

// mustHold returns the locks held in every path state in which n was reached.
func mustHold(w *IPWalk, n Node) map[string]bool {
	var inter map[string]bool
	for st := range w.States[n] {
		m := lockSetParse(st)
		if inter == nil {
			inter = m
			continue
		}
		for k := range inter {
			if !m[k] {
				delete(inter, k)
			}
		}
	}
	if inter == nil {
		inter = map[string]bool{}
	}
	return inter
}

func holdsRead(m map[string]bool) bool  { return m["mu:R"] || m["mu:W"] || m["OPEN"] }
func holdsWrite(m map[string]bool) bool { return m["mu:W"] || m["OPEN"] }

// lockEntries: API entry points and their initial locksets.
type lockEntry struct {
	Key  string
	Init string
}

var lockEntries = []lockEntry{
	{"pogreb.Open", "OPEN"},
	{"(*pogreb.DB).Close", ""},
	{"(*pogreb.DB).Put", ""},
	{"(*pogreb.DB).Delete", ""},
	{"(*pogreb.DB).Get", ""},
	{"(*pogreb.DB).GetAppend", ""},
	{"(*pogreb.DB).Has", ""},
	{"(*pogreb.DB).Count", ""},
	{"(*pogreb.DB).Sync", ""},
	{"(*pogreb.DB).Compact", ""},
	{"(*pogreb.DB).Backup", ""},
	{"(*pogreb.DB).FileSize", ""},
	{"(*pogreb.DB).Items", ""},
	{"(*pogreb.DB).Metrics", ""},
	{"(*pogreb.ItemIterator).Next", ""},
	{"@goroutines", ""}, // the body of every goroutine started by package pogreb
}

// resolveLockEntries expands the table for a loaded program ("@goroutines" -> functions started by go statements).
func resolveLockEntries(p *Program) []lockEntry {
	var out []lockEntry
	// every other exported method of the handles (*DB, *ItemIterator) is an entry too: a method added to the API is
	// held to the same lock discipline without being listed
	listed := map[string]bool{}
	for _, e := range lockEntries {
		listed[e.Key] = true
	}
	for _, f := range exportedAPIFuncs(p) {
		if f.Signature.Recv() == nil || listed[funcKey(f)] {
			continue
		}
		switch typeName(derefType(f.Signature.Recv().Type())) {
		case "pogreb.DB", "pogreb.ItemIterator":
			out = append(out, lockEntry{funcKey(f), ""})
		}
	}
	for _, e := range lockEntries {
		if e.Key != "@goroutines" {
			out = append(out, e)
			continue
		}
		for _, f := range p.ModuleFuncs("") {
			if f.Pkg != p.MainS {
				continue
			}
			instrsOf(f, func(in ssa.Instruction) {
				if g, ok := in.(*ssa.Go); ok {
					if body, _, _ := resolveFuncValue(nil, g.Call.Value, 0); body != nil {
						out = append(out, lockEntry{funcKey(body), ""})
					} else if sc := g.Call.StaticCallee(); sc != nil {
						out = append(out, lockEntry{funcKey(sc), ""})
					}
				}
			})
		}
	}
	return out
}

// guardedFields: shared state protected by DB.mu (confirmed by reading, DESIGN.md 2.2).
var guardedFields = map[string]bool{
	"pogreb.index.level": true, "pogreb.index.numKeys": true, "pogreb.index.numBuckets": true,
	"pogreb.index.splitBucketIdx": true, "pogreb.index.freeBucketOffs": true,
	"pogreb.datalog.curSeg": true, "pogreb.datalog.segments": true, "pogreb.datalog.maxSequenceID": true,
	"pogreb.segmentMeta.Full": true, "pogreb.segmentMeta.PutRecords": true, "pogreb.segmentMeta.DeleteRecords": true,
	"pogreb.segmentMeta.DeletedKeys": true, "pogreb.segmentMeta.DeletedBytes": true,
	"pogreb.file.size": true,
}

var iterFields = map[string]bool{"pogreb.ItemIterator.nextBucketIdx": true, "pogreb.ItemIterator.queue": true}

// access describes one access to guarded state.
type access struct {
	What  string
	Write bool
	Node  Node
}

// guardedAccessOf classifies node n.
func guardedAccessOf(n Node) *access {
	switch x := n.In.(type) {
	case *ssa.Store:
		if fn := fieldName(x.Addr); guardedFields[fn] || iterFields[fn] {
			return &access{What: fn, Write: true, Node: n}
		}
		// element store into datalog.segments
		if ia, ok := x.Addr.(*ssa.IndexAddr); ok {
			if fn := fieldName(ia.X); fn == "pogreb.datalog.segments" {
				return &access{What: fn + "[i]", Write: true, Node: n}
			}
		}
	case *ssa.UnOp:
		if fn := fieldName(x.X); (guardedFields[fn] || iterFields[fn]) && x.Op.String() == "*" {
			return &access{What: fn, Write: false, Node: n}
		}
		if ia, ok := x.X.(*ssa.IndexAddr); ok && x.Op.String() == "*" {
			if fn := fieldName(ia.X); fn == "pogreb.datalog.segments" {
				return &access{What: fn + "[i]", Write: false, Node: n}
			}
		}
	}
	return nil
}

// sharedFileEvent: an fs.File call on a long-lived file (index or segment file), i.e. not a handle opened locally.
func sharedFileEvent(n Node) *fsEvent {
	e := fsEventOf(n)
	if e == nil || e.Iface != "fs.File" {
		return nil
	}
	switch r := e.Recv.Root.(type) {
	case *ssa.Call, *ssa.Extract, *ssa.Alloc:
		_ = r
		return nil // handle obtained from a call, or a struct built, in this activation chain (OpenFile / openFile): local
	}
	if !strings.Contains(e.Recv.Chain, ".File") {
		return nil
	}
	return e
}
