package main

import (
	"fmt"
	"go/token"
	"go/types"
	"sort"
	"strings"

	"golang.org/x/tools/go/ssa"
)

// Table loops. A step table - runSteps(db.writeMeta, db.datalog.close, db.index.close, db.lock.Unlock), a slice of
// closers, a list of per-file actions - is a small literal slice of function values iterated by a loop that calls
// each element. The interprocedural walker follows such loops exactly: the loop index is a concrete number in the path
// state, the loop bound is the length of the literal, and the call of element k resolves to the k-th function value.
// Only loops whose bound is the length of a literal slice of at most 16 elements are treated this way.

const maxTable = 16

// literalSlice resolves v (through parameters, by the call string) to a slice built from an array literal whose
// elements are all assigned at constant indices, and returns the elements with the context they were written in.
func literalSlice(ctx *Ctx, v ssa.Value) ([]ssa.Value, *Ctx, bool) {
	for d := 0; d < 8; d++ {
		v = strip(v)
		switch x := v.(type) {
		case *ssa.Parameter:
			if ctx == nil || ctx.Parent == nil || ctx.Site == nil {
				return nil, nil, false
			}
			cc := callOf(ctx.Site)
			idx := paramIndex(x)
			if cc.IsInvoke() || idx < 0 || idx >= len(cc.Args) {
				return nil, nil, false
			}
			v, ctx = cc.Args[idx], ctx.Parent
		case *ssa.Slice:
			if x.Low != nil || x.High != nil {
				return nil, nil, false
			}
			al, ok := x.X.(*ssa.Alloc)
			if !ok || al.Referrers() == nil {
				return nil, nil, false
			}
			at, ok := derefType(al.Type()).Underlying().(*types.Array)
			if !ok || at.Len() > maxTable || at.Len() == 0 {
				return nil, nil, false
			}
			elems := make([]ssa.Value, at.Len())
			for _, u := range *al.Referrers() {
				ia, ok := u.(*ssa.IndexAddr)
				if !ok || ia.Referrers() == nil {
					continue
				}
				k, isc := constInt(ia.Index)
				if !isc || k < 0 || k >= at.Len() {
					return nil, nil, false
				}
				for _, w := range *ia.Referrers() {
					if st, ok := w.(*ssa.Store); ok && st.Addr == ssa.Value(ia) {
						elems[k] = st.Val
					}
				}
			}
			for _, e := range elems {
				if e == nil {
					return nil, nil, false
				}
			}
			return elems, ctx, true
		case *ssa.UnOp:
			if a, ok := x.X.(*ssa.Alloc); ok && x.Op == token.MUL {
				if st := allocStores(a); len(st) == 1 {
					v = st[0]
					continue
				}
			}
			return nil, nil, false
		default:
			return nil, nil, false
		}
	}
	return nil, nil, false
}

// ixKey names a loop index in one activation (the same helper may be running a table inside a table).
func ixKey(ctx *Ctx, ph *ssa.Phi) string { return fmt.Sprintf("%p/%s", ctx, valID(ph)) }

func ixParse(ix string) map[string]int64 {
	m := map[string]int64{}
	for _, p := range strings.Split(ix, ";") {
		if i := strings.Index(p, "="); i > 0 {
			var v int64
			fmt.Sscan(p[i+1:], &v)
			m[p[:i]] = v
		}
	}
	return m
}

func ixString(m map[string]int64) string {
	if len(m) == 0 {
		return ""
	}
	ks := make([]string, 0, len(m))
	for k := range m {
		ks = append(ks, k)
	}
	sort.Strings(ks)
	var sb strings.Builder
	for _, k := range ks {
		fmt.Fprintf(&sb, "%s=%d;", k, m[k])
	}
	return sb.String()
}

// evalInt evaluates an integer expression over table-loop indices.
func evalInt(ctx *Ctx, ix map[string]int64, v ssa.Value, d int) (int64, bool) {
	if d > 6 {
		return 0, false
	}
	v = strip(v)
	switch x := v.(type) {
	case *ssa.Const:
		return constInt(x)
	case *ssa.Phi:
		k, ok := ix[ixKey(ctx, x)]
		return k, ok
	case *ssa.BinOp:
		a, oka := evalInt(ctx, ix, x.X, d+1)
		b, okb := evalInt(ctx, ix, x.Y, d+1)
		if !oka || !okb {
			return 0, false
		}
		switch x.Op {
		case token.ADD:
			return a + b, true
		case token.SUB:
			return a - b, true
		}
	case *ssa.Call:
		if b, ok := x.Call.Value.(*ssa.Builtin); ok && b.Name() == "len" && len(x.Call.Args) == 1 {
			if elems, _, ok := literalSlice(ctx, x.Call.Args[0]); ok {
				return int64(len(elems)), true
			}
		}
	}
	return 0, false
}

// tableLoopPhis: the integer phis of fn that are the index of a loop bounded by the length of a slice (candidates; whether
// the slice is a literal depends on the calling context).
var tablePhiCache = map[*ssa.Function][]*ssa.Phi{}

func tableLoopPhis(fn *ssa.Function) []*ssa.Phi {
	if ps, ok := tablePhiCache[fn]; ok {
		return ps
	}
	var out []*ssa.Phi
	for _, b := range fn.Blocks {
		if len(b.Instrs) == 0 {
			continue
		}
		iff, ok := b.Instrs[len(b.Instrs)-1].(*ssa.If)
		if !ok {
			continue
		}
		bo, ok := iff.Cond.(*ssa.BinOp)
		if !ok {
			continue
		}
		isLen := func(v ssa.Value) bool {
			c, ok := strip(v).(*ssa.Call)
			if !ok {
				return false
			}
			bi, ok := c.Call.Value.(*ssa.Builtin)
			return ok && bi.Name() == "len"
		}
		if !isLen(bo.X) && !isLen(bo.Y) {
			continue
		}
		for _, side := range []ssa.Value{bo.X, bo.Y} {
			s := strip(side)
			if inc, ok := s.(*ssa.BinOp); ok {
				s = strip(inc.X)
			}
			if ph, ok := s.(*ssa.Phi); ok && inCycle(ph.Block()) {
				if bt, ok := ph.Type().Underlying().(*types.Basic); ok && bt.Info()&types.IsInteger != 0 {
					out = append(out, ph)
				}
			}
		}
	}
	tablePhiCache[fn] = out
	return out
}

// tableEdge updates the table-loop indices when edge k of block b is taken.
func tableEdge(ctx *Ctx, ix string, b *ssa.BasicBlock, k int) string {
	phis := tableLoopPhis(b.Parent())
	if len(phis) == 0 {
		return ix
	}
	succ := b.Succs[k]
	pi := -1
	for i, p := range succ.Preds {
		if p == b {
			pi = i
		}
	}
	var m map[string]int64
	for _, ph := range phis {
		if ph.Block() != succ || pi < 0 || pi >= len(ph.Edges) {
			continue
		}
		if m == nil {
			m = ixParse(ix)
		}
		// only loops whose bound really is a small literal in this context
		bounded := false
		if iff, ok := succ.Instrs[len(succ.Instrs)-1].(*ssa.If); ok {
			if bo, ok := iff.Cond.(*ssa.BinOp); ok {
				for _, side := range []ssa.Value{bo.X, bo.Y} {
					if c, ok := strip(side).(*ssa.Call); ok && len(c.Call.Args) == 1 {
						if _, _, ok := literalSlice(ctx, c.Call.Args[0]); ok {
							bounded = true
						}
					}
				}
			}
		}
		if !bounded {
			// the bound may be computed in a dominating block (t0 = len(steps) in the entry block)
			if iff, ok := succ.Instrs[len(succ.Instrs)-1].(*ssa.If); ok {
				if bo, ok := iff.Cond.(*ssa.BinOp); ok {
					for _, side := range []ssa.Value{bo.X, bo.Y} {
						if _, ok := evalInt(ctx, map[string]int64{}, side, 0); ok {
							if _, isConst := strip(side).(*ssa.Const); !isConst {
								bounded = true
							}
						}
					}
				}
			}
		}
		if !bounded {
			delete(m, ixKey(ctx, ph))
			continue
		}
		if v, ok := evalInt(ctx, m, ph.Edges[pi], 0); ok {
			m[ixKey(ctx, ph)] = v
		} else {
			delete(m, ixKey(ctx, ph))
		}
	}
	if m == nil {
		return ix
	}
	return ixString(m)
}

// tableFeasible: edge k of block b is compatible with the known table-loop indices.
func tableFeasible(ctx *Ctx, ix string, b *ssa.BasicBlock, k int) bool {
	c := edgeCond(b, k)
	if c == nil || c.X == nil || c.Y == nil {
		return true
	}
	m := ixParse(ix)
	x, okx := evalInt(ctx, m, c.X, 0)
	y, oky := evalInt(ctx, m, c.Y, 0)
	if !okx || !oky {
		return true
	}
	// at least one side must involve a tracked index (do not evaluate unrelated constant comparisons)
	holds := false
	switch c.Op {
	case token.LSS:
		holds = x < y
	case token.LEQ:
		holds = x <= y
	case token.GTR:
		holds = x > y
	case token.GEQ:
		holds = x >= y
	case token.EQL:
		holds = x == y
	case token.NEQ:
		holds = x != y
	default:
		return true
	}
	return holds == c.Pos
}

// tableCallee resolves a call of an element of a table (load of &table[i] with a known i).
func tableCallee(ctx *Ctx, ix string, fv ssa.Value) (*ssa.Function, *ssa.MakeClosure, *Ctx) {
	if ix == "" {
		return nil, nil, nil
	}
	ld, ok := strip(fv).(*ssa.UnOp)
	if !ok || ld.Op != token.MUL {
		return nil, nil, nil
	}
	ia, ok := ld.X.(*ssa.IndexAddr)
	if !ok {
		return nil, nil, nil
	}
	k, ok := evalInt(ctx, ixParse(ix), ia.Index, 0)
	if !ok {
		return nil, nil, nil
	}
	elems, ectx, ok := literalSlice(ctx, ia.X)
	if !ok || k < 0 || int(k) >= len(elems) {
		return nil, nil, nil
	}
	return resolveFuncValue(ectx, elems[k], 0)
}
