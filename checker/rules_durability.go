package main

import (
	"fmt"
	"go/token"
	"sort"
	"strings"

	"golang.org/x/tools/go/ssa"
)

// ---------- helpers shared by C06 / C09 / C15 ----------

func isFileEvent(e *fsEvent, method string) bool {
	return e != nil && e.Iface == "fs.File" && e.Method == method
}

// curSegFullEdge: the edge on which "<root>.curSeg.meta.Full" is known to be true (accepted reason to skip a sync:
// a sealed segment was synced when it was sealed - rule C06.seal-sync - and nothing is appended to it afterwards).
func curSegFullTrueEdge(ctx *Ctx, c *Cond) bool {
	if c == nil || c.Op != token.ILLEGAL || !c.Pos {
		return false
	}
	if !isFieldLoad(c.V, "pogreb.segmentMeta.Full") {
		return false
	}
	ap := accessPath(ctx, c.V)
	return strings.HasSuffix(ap.Chain, ".curSeg.meta.Full")
}

func isCurSegSync(n Node) bool {
	e := fsEventOf(n)
	return isFileEvent(e, "Sync") && strings.HasSuffix(e.Recv.Chain, ".curSeg.file.File")
}

// ---------- C06 ----------

// ruleC06SyncReachesFsync: DB.Sync, and Put/Delete in sync-writes mode, cannot return success without fsync of the
// current segment (or the accepted "current segment is sealed" skip).
func ruleC06SyncReaches(r *Run, p *Program, rule string) {
	type ent struct {
		key        string
		syncWrites bool
	}
	n := 0
	for _, e := range []ent{{"(*pogreb.DB).Sync", false}, {"(*pogreb.DB).Put", true}, {"(*pogreb.DB).Delete", true}} {
		f := p.Fn(e.key)
		if !r.anchor(rule, e.key, f != nil) {
			continue
		}
		r.fn(e.key)
		n++
		sawFlag := false
		w := &IPWalk{P: p,
			Visit: func(nd Node) bool { return isCurSegSync(nd) },
			SkipEdge: func(ctx *Ctx, b *ssa.BasicBlock, k int) bool {
				c := edgeCond(b, k)
				if c == nil {
					return false
				}
				if curSegFullTrueEdge(ctx, c) {
					return true
				}
				if e.syncWrites && c.Op == token.ILLEGAL && isFieldLoad(c.V, "pogreb.DB.syncWrites") {
					sawFlag = true
					return !c.Pos // analyse the sync-after-every-write mode
				}
				return false
			}}
		root := &Ctx{Fn: f}
		w.Run(root, nil)
		if e.syncWrites && !r.anchor(rule, e.key+": test of DB.syncWrites", sawFlag) {
			continue
		}
		bad := false
		for nd := range w.Reached {
			if w.rootSuccess(nd) {
				// for Put/Delete the early argument-validation returns are failure returns; any other success return counts
				bad = true
				mode := ""
				if e.syncWrites {
					mode = " (BackgroundSyncInterval == -1)"
				}
				r.bad(rule, e.key, p.Pos(instrPos(nd.In)), e.key+mode+" can return success without fsync of the current segment", w.PathTo(nd)...)
			}
		}
		if w.TooDeep {
			r.undecided(rule, e.key, p.Pos(f.Pos()), "inlining bound exceeded")
		}
		if !bad {
			r.ok(rule, e.key, p.Pos(f.Pos()), "every success return is preceded by File.Sync on datalog.curSeg (or by the 'current segment is sealed' test being true)", true)
		}
	}
	r.universe(rule, n, 3)
	// fs implementations: Sync must resolve to (*os.File).Sync for the OS-backed files
	for _, impl := range implementsIface(p, "File") {
		name := impl.Obj().Name()
		if strings.Contains(strings.ToLower(name), "mem") {
			continue // in-memory file system: nothing to flush, by design a testing aid
		}
		sel := lookupMethod(impl, "Sync")
		okv := sel != nil && sel.Pkg() != nil && sel.Pkg().Path() == "os"
		detail := "?"
		if sel != nil {
			detail = sel.FullName()
		}
		if !okv && sel != nil && sel.Pkg() != nil && sel.Pkg().Path() == fsPath {
			// an override must itself reach (*os.File).Sync on every success return
			if f := p.Fn("(*fs." + name + ").Sync"); f != nil {
				okv = mustCallOnSuccess(f, func(in ssa.Instruction) bool {
					c, ok := in.(*ssa.Call)
					return ok && calleeKey(&c.Call) == "(*os.File).Sync"
				})
			}
		}
		r.check(okv, rule, "fs."+name+".Sync", "", "Sync of fs."+name+" resolves to "+detail, "Sync of fs."+name+" ("+detail+") does not reach (*os.File).Sync: DB.Sync would acknowledge without flushing")
	}
}

// mustCallOnSuccess: every non-failure return of fn is preceded by an instruction satisfying pred.
func mustCallOnSuccess(fn *ssa.Function, pred func(ssa.Instruction) bool) bool {
	w := &Walk{Fn: fn, Stop: pred}
	w.From()
	for _, ret := range returnsOf(fn) {
		if w.succ(fn, ret) {
			return false
		}
	}
	return true
}

// mustCallOnSuccessDeep is mustCallOnSuccess where the call may also sit in a module helper every success return of
// which passes it (inlining bound 3).
func mustCallOnSuccessDeep(fn *ssa.Function, isTarget func(c *ssa.Call) bool, depth int) bool {
	return mustCallOnSuccess(fn, func(in ssa.Instruction) bool {
		c, ok := in.(*ssa.Call)
		if !ok {
			return false
		}
		if isTarget(c) {
			return true
		}
		g := c.Call.StaticCallee()
		if g == nil || g.Blocks == nil || g == fn || depth >= 3 || g.Pkg == nil || !strings.HasPrefix(g.Pkg.Pkg.Path(), modPath) {
			return false
		}
		return mustCallOnSuccessDeep(g, isTarget, depth+1)
	})
}

// ruleC06SealSync: a segment is marked full only after a successful Sync of that segment in the same function.
func ruleC06SealSync(r *Run, p *Program, rule string) {
	n := 0
	for _, f := range p.ModuleFuncs("") {
		if f.Pkg != p.MainS {
			continue
		}
		instrsOf(f, func(in ssa.Instruction) {
			st, ok := in.(*ssa.Store)
			if !ok || fieldName(st.Addr) != "pogreb.segmentMeta.Full" {
				return
			}
			if bv, isc := constBool(st.Val); isc && !bv {
				return
			}
			n++
			r.fn(funcKey(f))
			ap := accessPath(nil, st.Addr)
			if !strings.HasSuffix(ap.Chain, ".meta.Full") {
				r.undecided(rule, funcKey(f), p.Pos(st.Pos()), "cannot relate the sealed segmentMeta to its segment: "+ap.String())
				return
			}
			want := strings.TrimSuffix(ap.Chain, ".meta.Full") + ".file.File"
			w := &Walk{Fn: f, Stop: func(x ssa.Instruction) bool {
				c, ok := x.(*ssa.Call)
				if !ok || !isInvoke(&c.Call, "fs.File", "Sync") {
					return false
				}
				rp := accessPath(nil, c.Call.Value)
				return rp.Root == ap.Root && rp.Chain == want
			}}
			w.From()
			reach := w.Visited[st]
			// the Sync must have succeeded: the store must not be reachable from the Sync through its failure edge
			failOK := true
			instrsOf(f, func(x ssa.Instruction) {
				c, ok := x.(*ssa.Call)
				if !ok || !isInvoke(&c.Call, "fs.File", "Sync") {
					return
				}
				rp := accessPath(nil, c.Call.Value)
				if rp.Root != ap.Root || rp.Chain != want {
					return
				}
				w2 := &Walk{Fn: f, SkipEdge: func(b *ssa.BasicBlock, k int) bool {
					cd := edgeCond(b, k)
					if cd == nil {
						return false
					}
					e := errNilEdge(cd)
					return e != nil && valueOfCall(e, c)
				}}
				w2.From(c)
				// reachable although only non-nil edges were allowed => store happens on the failure path as well
				if w2.Visited[st] && !returnsErrorOf(f, c) {
					failOK = false
				}
			})
			switch {
			case reach:
				r.bad(rule, funcKey(f), p.Pos(st.Pos()), "a segment is marked full without having been synced: DB.Sync only flushes the current segment, so records appended to this segment since the last Sync are never flushed once the log moves on", w.PathTo(p, st)...)
			case !failOK:
				r.bad(rule, funcKey(f), p.Pos(st.Pos()), "the segment is marked full even when its Sync failed: a later retry skips the sync and the records are never flushed")
			default:
				r.ok(rule, funcKey(f), p.Pos(st.Pos()), "meta.Full = true is reachable only after a successful File.Sync of the same segment ("+ap.String()+")", true)
			}
		})
	}
	r.universe(rule, n, 1)
	// who seals: compaction and rollover must seal through a path that reaches such a store (C05.seal-first covers compaction)
}

// returnsErrorOf reports whether fn returns the error of call c on the path where it is non-nil (so the store after
// the call cannot be on the failure path). Conservative helper: true when every path from c through the non-nil
// edge ends in a failure return before any store.
func returnsErrorOf(fn *ssa.Function, c *ssa.Call) bool { return false }

// ruleC06UnlinkAfterDurable: in compact, between copying a record and unlinking the source, the destination is synced.
func ruleC06Unlink(r *Run, p *Program, rule string) {
	f := p.Fn("(*pogreb.DB).compact")
	if !r.anchor(rule, "(*pogreb.DB).compact", f != nil) {
		return
	}
	r.fn(funcKey(f))
	all, root := allNodes(p, f)
	var copies, removes []Node
	for n := range all.Reached {
		if calleeOfNode(all, n) == "(*pogreb.datalog).writeRecord" {
			copies = append(copies, n)
		}
		if e := fsEventOf(n); e != nil && e.Iface == "fs.FileSystem" && e.Method == "Remove" {
			removes = append(removes, n)
		}
	}
	r.CallSites += len(copies) + len(removes)
	if !r.anchor(rule, "record copy (writeRecord) and FileSystem.Remove reachable from compact", len(copies) > 0 && len(removes) > 0) {
		return
	}
	w := &IPWalk{P: p,
		Visit:    func(n Node) bool { return isCurSegSync(n) },
		SkipEdge: func(ctx *Ctx, b *ssa.BasicBlock, k int) bool { return curSegFullTrueEdge(ctx, edgeCond(b, k)) },
	}
	_ = root
	w.Run(root, copies)
	bad := false
	for _, rm := range removes {
		if w.Reached[rm] {
			bad = true
			r.bad(rule, "(*pogreb.DB).compact->Remove", p.Pos(instrPos(rm.In)), "the source segment can be unlinked while the copies compaction made of its live records are not yet flushed: a power failure loses records an earlier Sync had made durable", w.PathTo(rm)...)
		}
	}
	if !bad {
		r.ok(rule, "(*pogreb.DB).compact->Remove", p.Pos(f.Pos()), fmt.Sprintf("every path from a record copy (%d sites) to FileSystem.Remove (%d sites) passes File.Sync on the current segment", len(copies), len(removes)), true)
	}
}

// ---------- C09 ----------

func ruleC09SyncBeforeClose(r *Run, p *Program, rule string) {
	f := p.Fn("(*pogreb.DB).Close")
	if !r.anchor(rule, "(*pogreb.DB).Close", f != nil) {
		return
	}
	all, root := allNodes(p, f)
	type cl struct {
		n Node
		e *fsEvent
	}
	var closes []cl
	funcs := map[string]bool{}
	for n := range all.Reached {
		funcs[funcKey(n.Ctx.Fn)] = true
		if e := fsEventOf(n); isFileEvent(e, "Close") {
			closes = append(closes, cl{n, e})
		}
	}
	for k := range funcs {
		r.fn(k)
	}
	sort.Slice(closes, func(i, j int) bool { return closes[i].n.In.Pos() < closes[j].n.In.Pos() })
	r.universe(rule, len(closes), 4)
	for _, c := range closes {
		construct := funcKey(c.n.Ctx.Fn) + "->Close(" + c.e.Recv.String() + ")"
		// files opened read-only are exempt: recognised by the enclosing helper (readGobFile)
		if strings.HasSuffix(funcKey(c.n.Ctx.Fn), "readGobFile") {
			r.ok(rule, construct, p.Pos(instrPos(c.n.In)), "read-only file", false)
			continue
		}
		key := c.e.Recv.Key()
		// one walk with the path state "" (not synced) / "S" (synced) / "U" (closed without a Sync before; sticky), so
		// that what is known on the path to the Close (which step failed) still holds on the way to the return
		closeNode := c.n
		w := &IPWalk{P: p, Transfer: func(n Node, st string) string {
			if st == "U" {
				return st
			}
			if e := fsEventOf(n); isFileEvent(e, "Sync") && e.Recv.Key() == key {
				return "S"
			}
			if n == closeNode && st != "S" {
				return "U"
			}
			return st
		}}
		w.Run(root, nil)
		if w.States[c.n][""] {
			// error-path closes (after a failed write) are not on a success path of Close: check that a success return is reachable after it
			succ := false
			for n, sts := range w.RootSuccStates {
				if sts["U"] && w.rootSuccess(n) {
					succ = true
				}
			}
			if !succ {
				r.ok(rule, construct, p.Pos(instrPos(c.n.In)), "close on an error path only (DB.Close cannot return nil after it)", true)
				continue
			}
			r.bad(rule, construct, p.Pos(instrPos(c.n.In)), "DB.Close can close this written file without File.Sync on it and still return nil: the lock file is then removed while the file's contents are volatile", w.PathTo(c.n)...)
			continue
		}
		// no write between the Sync and the Close
		dirty := false
		w3 := &IPWalk{P: p, Visit: func(n Node) bool {
			e := fsEventOf(n)
			return isFileEvent(e, "Sync") && e.Recv.Key() == key
		}}
		var writes []Node
		for n := range all.Reached {
			if e := fsEventOf(n); e != nil && e.Iface == "fs.File" && fileMutators[e.Method] && e.Recv.Key() == key {
				writes = append(writes, n)
			}
		}
		if len(writes) > 0 {
			w3.Run(root, writes)
			if w3.Reached[c.n] {
				dirty = true
				r.bad(rule, construct, p.Pos(instrPos(c.n.In)), "the file is written after its last Sync and then closed", w3.PathTo(c.n)...)
			}
		}
		// nor a release of DB.mu: between a release and the Close other goroutines write the file
		if !dirty {
			var rel []Node
			for n := range all.Reached {
				if _, isReg := n.In.(*ssa.Defer); isReg {
					continue
				}
				if l, op := lockOp(nodeCall(n)); l == "mu" && (op == "Unlock" || op == "RUnlock") {
					rel = append(rel, n)
				}
			}
			if len(rel) > 0 {
				w4 := &IPWalk{P: p, Visit: func(n Node) bool {
					e := fsEventOf(n)
					return isFileEvent(e, "Sync") && e.Recv.Key() == key
				}}
				w4.Run(root, rel)
				if w4.Reached[c.n] {
					dirty = true
					r.bad(rule, construct, p.Pos(instrPos(c.n.In)), "DB.mu is released between the file's last Sync and its Close: a Put or Delete queued on the mutex runs in the gap, is acknowledged, and its write to this file is never synced before the lock file is removed", w4.PathTo(c.n)...)
				}
			}
		}
		if !dirty {
			r.ok(rule, construct, p.Pos(instrPos(c.n.In)), "every path of DB.Close to this Close passes File.Sync on the same file, with no write and no release of DB.mu in between", true)
		}
	}
}

// ruleSyncErrorFatal: a failed File.Sync on the way through DB.Close / DB.Sync makes the operation fail. Close's nil
// tells the caller the database is a durable checkpoint; a flush error that is overwritten, merged away or dropped
// lets Close remove the lock file over data that never reached the disk.
func ruleSyncErrorFatal(r *Run, p *Program, rule string) {
	n := 0
	for _, ek := range []string{"(*pogreb.DB).Close", "(*pogreb.DB).Sync"} {
		f := p.Fn(ek)
		if !r.anchor(rule, ek, f != nil) {
			continue
		}
		r.fn(ek)
		all, root := allNodes(p, f)
		var syncs []Node
		for nd := range all.Reached {
			if e := fsEventOf(nd); isFileEvent(e, "Sync") {
				if _, isCall := nd.In.(*ssa.Call); isCall {
					syncs = append(syncs, nd)
				}
			}
		}
		sort.Slice(syncs, func(i, j int) bool { return syncs[i].In.Pos() < syncs[j].In.Pos() })
		seen := map[string]bool{}
		for _, s := range syncs {
			construct := ek + "->" + funcKey(s.Ctx.Fn) + ":Sync(" + fsEventOf(s).Recv.String() + ")"
			if seen[construct] {
				continue
			}
			seen[construct] = true
			n++
			w := &IPWalk{P: p, StartFailed: true}
			w.Run(root, []Node{s})
			bad := false
			for nd := range w.Reached {
				if w.rootSuccess(nd) {
					bad = true
					r.bad(rule, construct, p.Pos(instrPos(s.In)), ek+" can return nil although this File.Sync failed: the flush error is overwritten or dropped on the way up, the caller is told the data is durable (and Close removes the lock file) while it never reached the disk", w.PathTo(nd)...)
					break
				}
			}
			if !bad {
				r.ok(rule, construct, p.Pos(instrPos(s.In)), "when this File.Sync fails "+ek+" cannot return nil", true)
			}
		}
	}
	r.universe(rule, n, 3)
}

// ruleErrorFatal: in the operations that acknowledge a state change, a failed step makes the operation fail. For
// every call below the entry that can return an error - a module function, or a method of fs.File / fs.FileSystem /
// fs.LockFile - the interprocedural walk is started right after the call with its error assumed non-nil; a nil return
// of the entry must not be reachable. This is the path-sensitive form of 'no error is dropped': an error that is
// tested but shadowed, overwritten on the way up, or only logged is found too. Reviewed exceptions: errorFatalExceptions.
var errorFatalExceptions = map[string]string{
	"(*pogreb.datalog).openSegment->pogreb.readGobFile": "a missing or unreadable segment meta is tolerated (logged): the meta is rebuilt by recovery or starts empty",
	"(*pogreb.datalog).removeSegment->FileSystem.Remove": "the meta side file may not exist (never written before the first Close): os.IsNotExist is tolerated for it, any other error is returned",
	"(*pogreb.DB).recover->pogreb.removeRecoveryBackupFiles": "left-over *.bac files are harmless (ignored by Open, removed by the next recovery): the failure is logged",
}

// errorFatalOtherThanSentinels: steps whose sentinel errors are handled as part of normal operation (reviewed elsewhere);
// the failure explored for them is "an error that is none of the sentinels" (an I/O error), which must still be fatal.
var errorFatalOtherThanSentinels = map[string]string{
	"(*pogreb.recoveryIterator).next->(*pogreb.segmentIterator).next": "a damaged or torn tail (io.EOF / io.ErrUnexpectedEOF / errCorrupted) is not a failure of recovery: the segment is truncated there (which errors count as a damaged tail is checked by the gates rule); any other error of the segment iterator is",
}

// sentinelsOf: the sentinel error variables a module function can return ("*": something that is not tracked).
var sentinelCache = map[*ssa.Function]map[string]bool{}

func sentinelsOf(p *Program, g *ssa.Function, d int) map[string]bool {
	if m, ok := sentinelCache[g]; ok {
		return m
	}
	out := map[string]bool{}
	sentinelCache[g] = out // recursion guard
	if g.Blocks == nil || d > 8 {
		out["*"] = true
		return out
	}
	idx := errResultIndex(g)
	if idx < 0 {
		return out
	}
	for _, ret := range returnsOf(g) {
		for _, o := range sources(retOperand(ret, idx)) {
			o = strip(o)
			if isNilConst(o) {
				continue
			}
			if gl := globalLoad(o); gl != "" {
				out[gl] = true
				continue
			}
			if c, _ := callResult(o); c != nil {
				for k := range sentinelsOfCall(p, c, d+1) {
					out[k] = true
				}
				continue
			}
			if _, ok := o.(*ssa.MakeInterface); ok {
				continue // a freshly built error value
			}
			out["*"] = true
		}
	}
	return out
}

func sentinelsOfCall(p *Program, c *ssa.Call, d int) map[string]bool {
	out := map[string]bool{}
	if c.Call.IsInvoke() && devirt[c.Call.Method] == nil {
		switch c.Call.Method.Name() {
		case "Read", "ReadAt", "Slice":
			out["io.EOF"], out["io.ErrUnexpectedEOF"] = true, true
		}
		return out
	}
	g := c.Call.StaticCallee()
	if g == nil {
		g = devirt[c.Call.Method]
	}
	if g == nil {
		out["*"] = true // a function value: unknown
		return out
	}
	if !inModule(g) {
		switch g.String() {
		case "io.ReadFull", "(*bufio.Reader).Read", "(*bufio.Reader).Peek", "(*bufio.Reader).Discard", "io.CopyN", "io.Copy":
			out["io.EOF"], out["io.ErrUnexpectedEOF"] = true, true
		}
		return out // wrapped / freshly made errors
	}
	return sentinelsOf(p, g, d)
}

func sentinelsAt(p *Program, s Node) map[string]bool {
	c, ok := s.In.(*ssa.Call)
	if !ok {
		return map[string]bool{"*": true}
	}
	return sentinelsOfCall(p, c, 0)
}

func ruleErrorFatal(entries ...string) ruleFn {
	return func(r *Run, p *Program, rule string) {
		n := 0
		for _, ek := range entries {
			f := p.Fn(ek)
			if !r.anchor(rule, ek, f != nil) {
				continue
			}
			r.fn(ek)
			all, root := allNodes(p, f)
			var sites []Node
			for nd := range all.Reached {
				c, ok := nd.In.(*ssa.Call)
				if !ok {
					continue
				}
				sig := c.Call.Signature()
				if sig == nil || sig.Results().Len() == 0 || !isErrorType(sig.Results().At(sig.Results().Len()-1).Type()) {
					continue
				}
				if e := fsEventOf(nd); e != nil {
					sites = append(sites, nd)
					continue
				}
				if g := c.Call.StaticCallee(); g != nil && inModule(g) {
					sites = append(sites, nd)
				}
			}
			sort.Slice(sites, func(i, j int) bool {
				if sites[i].In.Pos() != sites[j].In.Pos() {
					return sites[i].In.Pos() < sites[j].In.Pos()
				}
				return sites[i].Ctx.String() < sites[j].Ctx.String()
			})
			seen := map[string]bool{}
			okCount := 0
			for _, s := range sites {
				c := s.In.(*ssa.Call)
				name := strings.TrimSuffix(callString(&c.Call), "()")
				if e := fsEventOf(s); e != nil {
					name = strings.TrimPrefix(e.Iface, "fs.") + "." + e.Method
				}
				construct := funcKey(s.Ctx.Fn) + "->" + name
				if seen[construct+"@"+p.Pos(c.Pos())] {
					continue
				}
				seen[construct+"@"+p.Pos(c.Pos())] = true
				n++
				if why, ok := errorFatalExceptions[construct]; ok {
					r.ok(rule, ek+":"+construct, p.Pos(c.Pos()), "reviewed exception: "+why, false)
					continue
				}
				// steps that cannot fail here, and dropped errors the errs rule accepts as benign (close of a read-only
				// handle, clean-up that runs only when the operation already fails)
				if errAlwaysNilAt(c) {
					continue
				}
				if errResultUnused(c) {
					if ok, _ := benignDrop(p, c); ok {
						continue
					}
				}
				// steps below an excepted call share its exception (their failure surfaces as that call's failure)
				under := false
				for cx := s.Ctx; cx != nil && cx.Parent != nil; cx = cx.Parent {
					if cc := callOf(cx.Site); cc != nil {
						if _, ok := errorFatalExceptions[funcKey(cx.Parent.Fn)+"->"+strings.TrimSuffix(callString(cc), "()")]; ok {
							under = true
						}
					}
				}
				if under {
					continue
				}
				// the failing step cannot have returned a sentinel it never returns: comparisons of an error with such a
				// sentinel are false on the explored paths
				sent := sentinelsAt(p, s)
				if _, other := errorFatalOtherThanSentinels[construct]; other {
					sent = map[string]bool{} // the failure is none of the sentinels
				}
				w := &IPWalk{P: p, StartFailed: true, FailedIsNot: func(gl string) bool {
					// the failure explored is a real error: not the iterators' "done" signal, and not a sentinel the
					// failing step never returns
					if gl == "pogreb.ErrIterationDone" {
						return true
					}
					return !sent["*"] && !sent[gl]
				}}
				w.Run(root, []Node{s})
				bad := false
				for nd := range w.Reached {
					if w.rootSuccess(nd) {
						bad = true
						r.bad(rule, ek+":"+construct, p.Pos(c.Pos()), ek+" can return nil although "+name+" (in "+funcKey(s.Ctx.Fn)+") failed: the error is shadowed, overwritten, only logged or dropped on the way up, and the operation is acknowledged as if the step had happened", w.PathTo(nd)...)
						break
					}
				}
				if !bad {
					okCount++
				}
			}
			r.ok(rule, ek, p.Pos(f.Pos()), fmt.Sprintf("%d error-returning steps below this entry: when any of them fails the entry cannot return nil", okCount), true)
		}
		r.universe(rule, n, 5)
	}
}

// ruleC09CommitLast: the lock file is released after everything else; required steps all happen before it.
func ruleCloseOrder(r *Run, p *Program, rule string) {
	f := p.Fn("(*pogreb.DB).Close")
	if !r.anchor(rule, "(*pogreb.DB).Close", f != nil) {
		return
	}
	r.fn(funcKey(f))
	all, root := allNodes(p, f)
	var unlocks []Node
	for n := range all.Reached {
		if e := fsEventOf(n); e != nil && e.Iface == "fs.LockFile" && e.Method == "Unlock" {
			unlocks = append(unlocks, n)
		}
	}
	if !r.anchor(rule, "LockFile.Unlock reachable from DB.Close", len(unlocks) > 0) {
		return
	}
	// nothing touches the file system after the lock was released
	w := &IPWalk{P: p}
	w.Run(root, unlocks)
	bad := false
	for n := range w.Reached {
		if e := fsEventOf(n); e != nil && (e.Iface == "fs.File" || e.Iface == "fs.FileSystem") {
			bad = true
			r.bad(rule, "(*pogreb.DB).Close:after-unlock", p.Pos(instrPos(n.In)), "DB.Close touches the file system ("+e.Iface+"."+e.Method+") after releasing the lock file: a crash in between leaves an unlocked directory in an intermediate state and another opener may already own it", w.PathTo(n)...)
		}
	}
	if !bad {
		r.ok(rule, "(*pogreb.DB).Close:after-unlock", p.Pos(f.Pos()), "no fs.File / fs.FileSystem call is reachable after LockFile.Unlock", true)
	}
	// every success return passes each required step, and the steps precede Unlock
	steps := []string{"(*pogreb.DB).writeMeta", "(*pogreb.datalog).close", "(*pogreb.index).close", "(*pogreb.index).writeMeta"}
	// the db-meta step by what it does when it is not found by name: the function that stores into dbMeta
	dbMetaWriter := ""
	if p.Fn(steps[0]) == nil {
		for _, st := range storesToField(p, "pogreb.dbMeta.HashSeed") {
			dbMetaWriter = funcKey(st.Parent())
		}
	}
	for _, s := range steps {
		s := s
		isStep := func(n Node) bool {
			k := calleeOfNode(all, n)
			return k == s || (s == steps[0] && dbMetaWriter != "" && k == dbMetaWriter)
		}
		w := &IPWalk{P: p, Visit: isStep}
		w.Run(root, nil)
		reachUnlock := false
		for _, u := range unlocks {
			if w.Reached[u] {
				reachUnlock = true
				r.bad(rule, "(*pogreb.DB).Close:"+s, p.Pos(instrPos(u.In)), "the lock file can be released without "+s+" having run: the next Open trusts files that were not written", w.PathTo(u)...)
			}
		}
		if !reachUnlock {
			r.ok(rule, "(*pogreb.DB).Close:"+s, p.Pos(f.Pos()), s+" precedes LockFile.Unlock on every path", true)
		}
	}
	// a failed step keeps the lock file: from a step, with its result assumed non-nil, Unlock must be unreachable
	{
		var unlockInstr []ssa.Instruction
		instrsOf(f, func(in ssa.Instruction) {
			if cc := callOf(in); cc != nil && isInvoke(cc, "fs.LockFile", "Unlock") {
				if _, isDefer := in.(*ssa.Defer); !isDefer {
					unlockInstr = append(unlockInstr, in)
				}
			}
		})
		instrsOf(f, func(in ssa.Instruction) {
			c, ok := in.(*ssa.Call)
			if !ok {
				return
			}
			k := calleeKey(&c.Call)
			isStep := false
			for _, s := range steps {
				if s == k {
					isStep = true
				}
			}
			if !isStep || len(unlockInstr) == 0 {
				return
			}
			wk := &Walk{Fn: f, InitFacts: facts("").withErrResult(c, false), SkipEdge: func(b *ssa.BasicBlock, kk int) bool {
				cd := edgeCond(b, kk)
				if cd == nil {
					return false
				}
				e := errNilEdge(cd)
				return e != nil && valueOfCall(e, c)
			}}
			wk.From(c)
			reach := false
			for _, u := range unlockInstr {
				if wk.Visited[u] {
					reach = true
				}
			}
			r.check(!reach, rule, "(*pogreb.DB).Close:keeps-lock-when("+k+" failed)", p.Pos(c.Pos()), "when "+k+" fails the lock file is kept, so the next Open recovers", "DB.Close releases (removes) the lock file although "+k+" failed: the next Open skips recovery and trusts index/meta files that were not completely written")
		})
	}
	// every success return of Close has (re)written each metadata file: the create-open of the file is on the path
	for _, fam := range []string{"db.pmt", "index.pmt"} {
		fam := fam
		wm := &IPWalk{P: p, Visit: func(n Node) bool {
			c, ok := n.In.(*ssa.Call)
			if !ok || calleeKey(&c.Call) != "pogreb.openFile" || len(c.Call.Args) != 3 || openFlagsReadOnly(c.Call.Args[2]) {
				return false
			}
			return nameAbs(n.Ctx, c.Call.Args[1], 0) == fam
		}}
		wm.Run(root, nil)
		okm := true
		for n := range wm.Reached {
			if wm.rootSuccess(n) {
				okm = false
				r.bad(rule, "(*pogreb.DB).Close:writes("+fam+")", p.Pos(instrPos(n.In)), "DB.Close can return nil without having rewritten "+fam+": the next Open reads stale metadata (e.g. a hash seed the index was not built with) and silently misses keys", wm.PathTo(n)...)
			}
		}
		if okm {
			r.ok(rule, "(*pogreb.DB).Close:writes("+fam+")", p.Pos(f.Pos()), "every success return of Close rewrote "+fam, true)
		}
	}
	// success return requires Unlock
	w2 := &IPWalk{P: p, Visit: func(n Node) bool {
		e := fsEventOf(n)
		return e != nil && e.Iface == "fs.LockFile" && e.Method == "Unlock"
	}}
	w2.Run(root, nil)
	okU := true
	for n := range w2.Reached {
		if w2.rootSuccess(n) {
			okU = false
			r.bad(rule, "(*pogreb.DB).Close:unlock", p.Pos(instrPos(n.In)), "DB.Close can return nil without releasing the lock file", w2.PathTo(n)...)
		}
	}
	if okU {
		r.ok(rule, "(*pogreb.DB).Close:unlock", p.Pos(f.Pos()), "every success return of DB.Close passes LockFile.Unlock", true)
	}
	// datalog.close visits every open segment: its loop over datalog.segments skips only nil entries
	if dc := p.Fn("(*pogreb.datalog).close"); r.anchor(rule, "(*pogreb.datalog).close", dc != nil) {
		checkLoopSkipsOnlyNil(r, p, rule, dc)
	}
	// who may call Unlock
	n := 0
	for _, g := range p.ModuleFuncs("") {
		if g.Pkg != p.MainS {
			continue
		}
		instrsOf(g, func(in ssa.Instruction) {
			cc := callOf(in)
			asValue := false
			if mc, ok := in.(*ssa.MakeClosure); ok {
				// db.lock.Unlock taken as a method value (a step of a step table)
				if bf, ok := mc.Fn.(*ssa.Function); ok && strings.HasPrefix(bf.Synthetic, "bound method wrapper") && bf.Object() != nil && bf.Object().Name() == "Unlock" && len(mc.Bindings) == 1 && typeName(mc.Bindings[0].Type()) == "fs.LockFile" {
					asValue = true
				}
			}
			if asValue || (cc != nil && isInvoke(cc, "fs.LockFile", "Unlock")) {
				n++
				r.check(funcKey(g) == "(*pogreb.DB).Close", rule, funcKey(g)+"->LockFile.Unlock", p.Pos(in.Pos()), "only DB.Close releases the lock file", "the lock file is released outside DB.Close: an interrupted session would look cleanly closed")
			}
		})
	}
	r.universe(rule+":unlock-callers", n, 1)
}

// checkLoopSkipsOnlyNil: in a function ranging over datalog.segments, per-segment work (any call taking the element)
// is skipped only when the element is nil.
func checkLoopSkipsOnlyNil(r *Run, p *Program, rule string, f *ssa.Function) {
	// per-segment work: calls with receiver/argument derived from an element of datalog.segments - in f itself, or in a
	// callback f hands to an iterator helper (resolved through the call string)
	work := findWorkDeep(p, f, func(in ssa.Instruction) bool {
		_, ok := in.(*ssa.Call)
		return ok
	})
	var nodes []Node
	for _, nd := range work {
		c := nd.In.(*ssa.Call)
		if funcKey(nd.Ctx.Fn) != funcKey(f) && (nd.Ctx.Parent == nil || !ctxHasFn(nd.Ctx, funcKey(f))) {
			continue
		}
		// only the steps themselves, not what happens inside them
		depthOK := true
		for cx := nd.Ctx; cx != nil; cx = cx.Parent {
			k := funcKey(cx.Fn)
			if k == "pogreb.writeGobFile" || k == "pogreb.openFile" || strings.HasPrefix(k, "(*pogreb.file).") || strings.HasPrefix(k, "(*pogreb.segment).") {
				depthOK = false
			}
		}
		if !depthOK {
			continue
		}
		vals := append([]ssa.Value{}, c.Call.Args...)
		if c.Call.IsInvoke() {
			vals = append(vals, c.Call.Value)
		}
		for _, v := range vals {
			if isSegmentsElem(accessPath(nd.Ctx, v).Root) {
				nodes = append(nodes, nd)
				break
			}
		}
	}
	if !r.anchor(rule, "per-segment calls in "+funcKey(f), len(nodes) > 0) {
		return
	}
	// within one iteration, each per-segment call may be bypassed only for a nil entry (or on an error / the loop bound)
	bad := false
	reported := map[token.Pos]bool{}
	frame := func(fn *ssa.Function, ctx *Ctx, target ssa.Instruction) {
		if !inCycle(target.Block()) {
			// not the loop frame (the body of a callback): any bypass of the step here is a skip for a non-nil segment
			if skipsOnlyFrameCtx(r, p, rule, funcKey(f)+":skips-only-nil", ctx, fn, target, func(c *Cond) bool { return false },
				"a per-segment step of "+funcKey(f)+" can be skipped for a non-nil segment: that segment would not be synced/closed or its meta file not (re)written, so what the next session reads about it is stale") {
				bad = true
			}
			return
		}
		w := &Walk{Fn: fn, Stop: func(in ssa.Instruction) bool { return in == target }}
		w.From()
		for _, b := range fn.Blocks {
			if !sameCycle(b, target.Block()) {
				continue
			}
			for k := range b.Succs {
				c := edgeCond(b, k)
				if c == nil || !w.Visited[b.Instrs[len(b.Instrs)-1]] {
					continue
				}
				if !edgeDominatesNot(fn, b, k, target) {
					continue
				}
				if isNilTestOfSegElem(c) {
					if !sameCycle(b.Succs[k], target.Block()) && b.Succs[k] != target.Block() {
						if !reported[c.If.Cond.Pos()] {
							reported[c.If.Cond.Pos()] = true
							bad = true
							r.bad(rule, funcKey(f)+":skips-only-nil", p.Pos(c.If.Cond.Pos()), "the loop over datalog.segments stops at the first nil entry instead of skipping it: after compaction freed a lower segment id every segment behind the hole is left unsynced, unclosed and without its meta file")
						}
					}
					continue
				}
				if isLoopBound(c) || errNonNilEdge(c) != nil {
					continue
				}
				if !reported[c.If.Cond.Pos()] {
					reported[c.If.Cond.Pos()] = true
					bad = true
					r.bad(rule, funcKey(f)+":skips-only-nil", p.Pos(c.If.Cond.Pos()), "the loop over datalog.segments can skip a step ("+callString(callOf(target))+") for a non-nil segment ("+c.String(p)+"): that segment would not be synced/closed or its meta file not (re)written, so what the next session reads about it is stale")
				}
			}
		}
	}
	for _, nd := range nodes {
		site := nd.In
		for ctx := nd.Ctx; ctx != nil && site != nil; ctx = ctx.Parent {
			if site.Parent() == ctx.Fn {
				frame(ctx.Fn, ctx, site)
			}
			if funcKey(ctx.Fn) == funcKey(f) {
				break
			}
			site = ctx.Site
		}
	}
	if !bad {
		r.ok(rule, funcKey(f)+":skips-only-nil", p.Pos(f.Pos()), "the loop over datalog.segments skips only nil entries", true)
	}
}

// edgeDominatesNot: taking edge b->k makes it impossible to reach target within the same loop iteration; approximated as
// "target is not reachable from the edge target without going through block b again".
func edgeDominatesNot(fn *ssa.Function, b *ssa.BasicBlock, k int, target ssa.Instruction) bool {
	start := b.Succs[k]
	seen := map[*ssa.BasicBlock]bool{b: true}
	stack := []*ssa.BasicBlock{start}
	for len(stack) > 0 {
		x := stack[len(stack)-1]
		stack = stack[:len(stack)-1]
		if seen[x] {
			continue
		}
		seen[x] = true
		if x == target.Block() {
			return false
		}
		// do not cross the loop header again: stop at blocks that dominate b (header)
		if x.Dominates(b) && x != start {
			continue
		}
		stack = append(stack, x.Succs...)
	}
	return true
}

func isSegmentsElem(v ssa.Value) bool { return isSegmentsElemSeen(v, map[ssa.Value]bool{}) }

func isSegmentsElemSeen(v ssa.Value, seen map[ssa.Value]bool) bool {
	// load of &segments[i], or range element extracted from the array
	v = strip(v)
	if v == nil || seen[v] {
		return false
	}
	seen[v] = true
	switch x := v.(type) {
	case *ssa.UnOp:
		if x.Op == token.MUL {
			if ia, ok := x.X.(*ssa.IndexAddr); ok {
				return strings.HasSuffix(fieldOrIndexBase(ia.X), "datalog.segments")
			}
		}
	case *ssa.Index:
		return strings.HasSuffix(fieldOrIndexBase(x.X), "datalog.segments")
	case *ssa.Phi:
		for _, e := range x.Edges {
			if isSegmentsElemSeen(e, seen) {
				return true
			}
		}
	}
	return false
}

func fieldOrIndexBase(v ssa.Value) string {
	v = strip(v)
	if u, ok := v.(*ssa.UnOp); ok && u.Op == token.MUL {
		return fieldName(u.X)
	}
	return fieldName(v)
}

func isNilTestOfSegElem(c *Cond) bool {
	eq, ok := c.holdsEq()
	if !ok || !eq {
		return false
	}
	isElem := func(v ssa.Value) bool {
		if isSegmentsElem(v) {
			return true
		}
		// the loop variable lives in a cell (it is captured by a closure): what was stored into it
		for _, s := range sources(v) {
			if isSegmentsElem(s) {
				return true
			}
		}
		return false
	}
	return (isNilConst(c.Y) && isElem(c.X)) || (isNilConst(c.X) && isElem(c.Y))
}

func isLoopBound(c *Cond) bool {
	if c.Op != token.LSS && c.Op != token.GEQ && c.Op != token.LEQ && c.Op != token.GTR {
		return false
	}
	return hasPhi(c.X, 0) || hasPhi(c.Y, 0)
}

func hasPhi(v ssa.Value, d int) bool {
	if d > 4 {
		return false
	}
	switch x := strip(v).(type) {
	case *ssa.Phi:
		return true
	case *ssa.BinOp:
		return hasPhi(x.X, d+1) || hasPhi(x.Y, d+1)
	case *ssa.Convert:
		return hasPhi(x.X, d+1)
	}
	return false
}

// ruleC06RecoverSyncs: recovery flushes what it replayed: every replayed segment is sealed (synced) or synced directly,
// the newest one through its own handle (not through datalog.curSeg, which need not be the newest after recovery).
func ruleC06RecoverSyncs(r *Run, p *Program, rule string) {
	f := p.Fn("(*pogreb.DB).recover")
	if !r.anchor(rule, "(*pogreb.DB).recover", f != nil) {
		return
	}
	r.fn(funcKey(f))
	all, _ := allNodes(p, f)
	sl := sealers(p)
	found := false
	var where Node
	for n := range all.Reached {
		e := fsEventOf(n)
		if !isFileEvent(e, "Sync") || strings.Contains(e.Recv.Chain+".", ".curSeg.") {
			continue
		}
		inSealer := false
		for c := n.Ctx; c != nil; c = c.Parent {
			if sl[funcKey(c.Fn)] {
				inSealer = true
			}
		}
		if inSealer || !isSegmentsSliceElem(e.Recv.Root) {
			continue
		}
		found, where = true, n
	}
	pos := p.Pos(f.Pos())
	if found {
		pos = p.Pos(instrPos(where.In))
	}
	r.check(found, rule, funcKey(f)+":syncs-newest", pos,
		"recovery syncs the replayed segment that stays writable (the newest) through its own handle, the others are synced when sealed",
		"recovery does not sync the newest replayed segment through its own handle (outside the sealing helper, not via datalog.curSeg): records the crashed session never flushed stay volatile although they are visible again, and a later Sync - which only flushes datalog.curSeg, not necessarily that segment - does not cover them")
}

// isSegmentsSliceElem: v is an element loaded from a []*segment (the replay order).
func isSegmentsSliceElem(v ssa.Value) bool {
	for _, s := range sources(v) {
		if u, ok := s.(*ssa.UnOp); ok && u.Op == token.MUL {
			if ia, ok := u.X.(*ssa.IndexAddr); ok {
				if strings.Contains(ia.X.Type().String(), "segment") {
					return true
				}
			}
		}
		if _, ok := s.(*ssa.Extract); ok {
			// range over a slice yields the element via extract of next; handled by sources of the load above in go/ssa for slices
		}
	}
	return false
}
