package main

import (
	"fmt"
	"go/constant"
	"go/token"
	"go/types"
	"sort"
	"strings"

	"golang.org/x/tools/go/ssa"
)

// ---------- error discipline ----------

// droppedErrExceptions: reviewed call sites whose error result is intentionally not used.
var droppedErrExceptions = map[string]string{
	"pogreb.openFile$1->*clean":               "deferred cleanup: closes a file whose opening sequence already failed (clean is nil on success)",
	"pogreb.readGobFile->defer fs.File.Close": "read-only file: nothing to lose on Close",
}

// ruleErrs: no error of a call in package pogreb is dropped, except on paths that already fail or in the reviewed table.
func ruleErrs(r *Run, p *Program, rule string) {
	n := 0
	for _, f := range p.ModuleFuncs("") {
		if f.Pkg != p.MainS {
			continue
		}
		instrsOf(f, func(in ssa.Instruction) {
			var cc *ssa.CallCommon
			isDefer := false
			var val ssa.Value
			switch x := in.(type) {
			case *ssa.Call:
				cc, val = &x.Call, x
			case *ssa.Defer:
				cc, isDefer = &x.Call, true
			default:
				return
			}
			sig := cc.Signature()
			if sig == nil || sig.Results().Len() == 0 || !isErrorType(sig.Results().At(sig.Results().Len()-1).Type()) {
				return
			}
			// only calls that can fail for I/O reasons matter: fs interfaces, module functions, and std I/O helpers
			name := callString(cc)
			n++
			used := false
			if !isDefer {
				if sig.Results().Len() == 1 {
					used = val.Referrers() != nil && len(*val.Referrers()) > 0
				} else {
					for _, rf := range *val.Referrers() {
						if ex, ok := rf.(*ssa.Extract); ok && ex.Index == sig.Results().Len()-1 && ex.Referrers() != nil && len(*ex.Referrers()) > 0 {
							used = true
						}
					}
				}
			}
			if used {
				return
			}
			key := funcKey(f) + "->" + strings.TrimSuffix(name, "()")
			if isDefer {
				key = funcKey(f) + "->defer " + strings.TrimSuffix(name, "()")
			}
			if strings.HasPrefix(name, "call *") {
				key = funcKey(f) + "->" + strings.TrimSuffix(strings.TrimPrefix(name, "call "), "()")
			}
			if why, ok := droppedErrExceptions[key]; ok {
				r.ok(rule, key, p.Pos(in.Pos()), "reviewed exception: "+why, false)
				return
			}
			// Close of a handle that this function opened read-only: nothing can be lost
			if cc.IsInvoke() && cc.Method.Name() == "Close" {
				ro := false
				for _, s := range sources(cc.Value) {
					x := s
					// f.File of a *file returned by openFile, or the result itself
					for d := 0; d < 6; d++ {
						switch y := x.(type) {
						case *ssa.UnOp:
							x = y.X
							continue
						case *ssa.FieldAddr:
							x = y.X
							continue
						case *ssa.Field:
							x = y.X
							continue
						}
						break
					}
					if c, idx := callResult(x); c != nil && idx <= 0 && calleeKey(&c.Call) == "pogreb.openFile" && len(c.Call.Args) == 3 && openFlagsReadOnly(c.Call.Args[2]) {
						ro = true
					}
				}
				if ro {
					r.ok(rule, key, p.Pos(in.Pos()), "Close of a file this function opened read-only: nothing to lose", true)
					return
				}
			}
			if !isDefer {
				// cleanup on a failing path: every return reachable afterwards is a failure return
				w := &Walk{Fn: f}
				w.From(in)
				onlyFail := true
				any := false
				for _, ret := range returnsOf(f) {
					if w.Visited[ret] {
						any = true
						if !isFailureReturn(f, ret) {
							onlyFail = false
						}
					}
				}
				if any && onlyFail {
					r.ok(rule, key, p.Pos(in.Pos()), "error dropped on a path that already returns another error (cleanup)", true)
					return
				}
			}
			// cleanup inside a (deferred) closure that runs only when a captured error variable is non-nil
			if f.Parent() != nil && controlledBy(f, in, func(c *Cond) bool {
				e := errNonNilEdge(c)
				if e == nil {
					return false
				}
				for _, s := range sources(e) {
					if u, ok := s.(*ssa.UnOp); ok {
						if _, isFV := u.X.(*ssa.FreeVar); isFV {
							return true
						}
					}
					if _, isFV := s.(*ssa.FreeVar); isFV {
						return true
					}
				}
				return false
			}) {
				r.ok(rule, key, p.Pos(in.Pos()), "error dropped in a closure that runs only when the enclosing function's error is already non-nil (cleanup)", true)
				return
			}
			// the error is provably nil: the callee returns only nil or what a callback parameter returned, and the
			// callback passed here never returns an error (an iterator helper driven by a callback that cannot fail)
			if !isDefer {
				if c, ok := in.(*ssa.Call); ok && errAlwaysNilAt(c) {
					r.ok(rule, key, p.Pos(in.Pos()), "the dropped error is always nil here: the callee only forwards the error of a callback, and the callback passed at this site returns none", true)
					return
				}
			}
			// a local clean-up helper (closure) that its parent calls only on paths that already fail
			if par := f.Parent(); par != nil {
				var sites []ssa.Instruction
				instrsOf(par, func(x ssa.Instruction) {
					if c, ok := x.(*ssa.Call); ok {
						if g, _, _ := resolveFuncValue(&Ctx{Fn: par}, c.Call.Value, 0); g == f {
							sites = append(sites, c)
						}
					}
				})
				allFail := len(sites) > 0
				for _, site := range sites {
					w := &Walk{Fn: par}
					w.From(site)
					any := false
					for _, ret := range returnsOf(par) {
						if w.Visited[ret] {
							any = true
							if !isFailureReturn(par, ret) {
								allFail = false
							}
						}
					}
					if !any {
						allFail = false
					}
				}
				if allFail {
					r.ok(rule, key, p.Pos(in.Pos()), "error dropped in a local clean-up helper that is called only on paths that already return another error", true)
					return
				}
			}
			// conditional cleanup in a deferred closure: the call runs only under a test of state captured from the
			// enclosing function (an error variable, a success flag, a clean-up function that is nil-ed on success)
			if par := f.Parent(); par != nil {
				deferred := false
				instrsOf(par, func(x ssa.Instruction) {
					if d, ok := x.(*ssa.Defer); ok {
						if mc, ok := d.Call.Value.(*ssa.MakeClosure); ok && mc.Fn == ssa.Value(f) {
							deferred = true
						}
					}
				})
				rootedAtFreeVar := func(v ssa.Value) bool {
					for _, s := range sources(v) {
						x := s
						for d := 0; d < 6; d++ {
							switch y := x.(type) {
							case *ssa.FreeVar:
								return true
							case *ssa.UnOp:
								x = y.X
								continue
							case *ssa.FieldAddr:
								x = y.X
								continue
							}
							break
						}
					}
					return false
				}
				if deferred && controlledBy(f, in, func(c *Cond) bool {
					if c.X != nil && c.Y != nil {
						return rootedAtFreeVar(c.X) || rootedAtFreeVar(c.Y)
					}
					return c.V != nil && rootedAtFreeVar(c.V)
				}) {
					r.ok(rule, key, p.Pos(in.Pos()), "error dropped by conditional cleanup in a deferred closure (runs only under a test of the enclosing function's state)", true)
					return
				}
			}
			// non-I/O std helpers whose error is irrelevant
			if strings.HasPrefix(name, "(*expvar.") || strings.Contains(name, "log.Logger") {
				return
			}
			r.bad(rule, key, p.Pos(in.Pos()), "the error returned by "+name+" is dropped on a path that can still report success: a failed write/flush/close goes unnoticed and the operation is acknowledged")
		})
	}
	r.universe(rule, n, 60)
}

// errResultUnused: nothing reads the error result of call c.
func errResultUnused(c *ssa.Call) bool {
	sig := c.Call.Signature()
	if sig == nil || sig.Results().Len() == 0 {
		return false
	}
	if c.Referrers() == nil {
		return true
	}
	n := sig.Results().Len()
	if n == 1 {
		return len(*c.Referrers()) == 0
	}
	for _, rf := range *c.Referrers() {
		if ex, ok := rf.(*ssa.Extract); ok && ex.Index == n-1 && ex.Referrers() != nil && len(*ex.Referrers()) > 0 {
			return false
		}
	}
	return true
}

// benignDrop: the dropped error of call c is one of the accepted clean-up idioms (see ruleErrs).
func benignDrop(p *Program, c *ssa.Call) (bool, string) {
	f := c.Parent()
	cc := &c.Call
	// Close of a handle that this function opened read-only
	if cc.IsInvoke() && cc.Method.Name() == "Close" {
		for _, s := range sources(cc.Value) {
			x := s
			for d := 0; d < 6; d++ {
				switch y := x.(type) {
				case *ssa.UnOp:
					x = y.X
					continue
				case *ssa.FieldAddr:
					x = y.X
					continue
				case *ssa.Field:
					x = y.X
					continue
				}
				break
			}
			if oc, idx := callResult(x); oc != nil && idx <= 0 && calleeKey(&oc.Call) == "pogreb.openFile" && len(oc.Call.Args) == 3 && openFlagsReadOnly(oc.Call.Args[2]) {
				return true, "close of a read-only handle"
			}
		}
	}
	// cleanup on a failing path of f
	{
		w := &Walk{Fn: f}
		w.From(c)
		onlyFail, any := true, false
		for _, ret := range returnsOf(f) {
			if w.Visited[ret] {
				any = true
				if !isFailureReturn(f, ret) {
					onlyFail = false
				}
			}
		}
		if any && onlyFail {
			return true, "cleanup on a path that already fails"
		}
	}
	par := f.Parent()
	if par == nil {
		return false, ""
	}
	// a local clean-up helper called only on failing paths of its parent
	{
		var sites []ssa.Instruction
		instrsOf(par, func(x ssa.Instruction) {
			if pc, ok := x.(*ssa.Call); ok {
				if g, _, _ := resolveFuncValue(&Ctx{Fn: par}, pc.Call.Value, 0); g == f {
					sites = append(sites, pc)
				}
			}
		})
		allFail := len(sites) > 0
		for _, site := range sites {
			w := &Walk{Fn: par}
			w.From(site)
			any := false
			for _, ret := range returnsOf(par) {
				if w.Visited[ret] {
					any = true
					if !isFailureReturn(par, ret) {
						allFail = false
					}
				}
			}
			if !any {
				allFail = false
			}
		}
		if allFail {
			return true, "local clean-up helper called only on failing paths"
		}
	}
	// conditional cleanup in a deferred closure
	deferred := false
	instrsOf(par, func(x ssa.Instruction) {
		if d, ok := x.(*ssa.Defer); ok {
			if mc, ok := d.Call.Value.(*ssa.MakeClosure); ok && mc.Fn == ssa.Value(f) {
				deferred = true
			}
		}
	})
	rootedAtFreeVar := func(v ssa.Value) bool {
		for _, s := range sources(v) {
			x := s
			for d := 0; d < 6; d++ {
				switch y := x.(type) {
				case *ssa.FreeVar:
					return true
				case *ssa.UnOp:
					x = y.X
					continue
				case *ssa.FieldAddr:
					x = y.X
					continue
				}
				break
			}
		}
		return false
	}
	if deferred && controlledBy(f, c, func(cd *Cond) bool {
		if cd.X != nil && cd.Y != nil {
			return rootedAtFreeVar(cd.X) || rootedAtFreeVar(cd.Y)
		}
		return cd.V != nil && rootedAtFreeVar(cd.V)
	}) {
		return true, "conditional cleanup in a deferred closure"
	}
	return false, ""
}

// errAlwaysNilAt: the error result of call c (a module function) is nil on every path: each return of the callee has a
// nil error, or forwards the error result of a call to one of its function-typed parameters whose argument at c is a
// closure (or function) that returns only nil errors.
func errAlwaysNilAt(c *ssa.Call) bool {
	g := c.Call.StaticCallee()
	if g == nil || g.Blocks == nil || !inModule(g) {
		return false
	}
	idx := errResultIndex(g)
	if idx < 0 {
		return false
	}
	neverFails := func(h *ssa.Function) bool {
		if h == nil || h.Blocks == nil {
			return false
		}
		hi := errResultIndex(h)
		if hi < 0 {
			return true
		}
		for _, ret := range returnsOf(h) {
			if !isNilConst(strip(retOperand(ret, hi))) {
				return false
			}
		}
		return true
	}
	for _, ret := range returnsOf(g) {
		for _, o := range sources(retOperand(ret, idx)) {
			if isNilConst(strip(o)) {
				continue
			}
			cb, _ := callResult(o)
			if cb == nil {
				return false
			}
			pa, ok := strip(cb.Call.Value).(*ssa.Parameter)
			if !ok {
				return false
			}
			i := paramIndex(pa)
			if i < 0 || i >= len(c.Call.Args) {
				return false
			}
			h, _, _ := resolveFuncValue(&Ctx{Fn: c.Parent()}, c.Call.Args[i], 0)
			if !neverFails(h) {
				return false
			}
		}
	}
	return true
}

// ---------- C02 ----------

type fieldPair struct{ meta, state string }

func metaPairsWriter(f *ssa.Function, metaType, stateType string) map[string]string {
	out := map[string]string{}
	instrsOf(f, func(in ssa.Instruction) {
		st, ok := in.(*ssa.Store)
		if !ok {
			return
		}
		fn := fieldName(st.Addr)
		if !strings.HasPrefix(fn, metaType+".") {
			return
		}
		src := "?"
		for _, s := range sources(st.Val) {
			if u, ok := s.(*ssa.UnOp); ok && strings.HasPrefix(fieldName(u.X), stateType+".") {
				src = fieldName(u.X)
			}
		}
		out[strings.TrimPrefix(fn, metaType+".")] = strings.TrimPrefix(src, stateType+".")
	})
	return out
}

func metaPairsReader(f *ssa.Function, metaType, stateType string) map[string]string {
	out := map[string]string{}
	instrsOf(f, func(in ssa.Instruction) {
		st, ok := in.(*ssa.Store)
		if !ok {
			return
		}
		fn := fieldName(st.Addr)
		if !strings.HasPrefix(fn, stateType+".") {
			return
		}
		src := "?"
		for _, s := range sources(st.Val) {
			if u, ok := s.(*ssa.UnOp); ok && strings.HasPrefix(fieldName(u.X), metaType+".") {
				src = fieldName(u.X)
			}
		}
		out[strings.TrimPrefix(src, metaType+".")] = strings.TrimPrefix(fn, stateType+".")
	})
	return out
}

// metaPairsByFlow pairs metadata fields with state fields without knowing the writer/reader functions: a store into
// a metadata field is traced back (through parameters to every static caller's argument) to the state field it was
// loaded from; a load of a metadata field is traced forward (through results to every static caller) to the state
// field it is stored into.
func metaPairsByFlow(p *Program, metaType, stateType string) (wf, rf *ssa.Function, wp, rp map[string]string) {
	wp, rp = map[string]string{}, map[string]string{}
	var origin func(v ssa.Value, f *ssa.Function, d int) string
	origin = func(v ssa.Value, f *ssa.Function, d int) string {
		if d > 3 {
			return "?"
		}
		res := ""
		for _, s := range sources(v) {
			cur := "?"
			switch x := s.(type) {
			case *ssa.UnOp:
				if strings.HasPrefix(fieldName(x.X), stateType+".") {
					cur = strings.TrimPrefix(fieldName(x.X), stateType+".")
				}
			case *ssa.Parameter:
				idx := paramIndex(x)
				for _, c := range staticCallersOf(p, f) {
					instrsOf(c, func(in ssa.Instruction) {
						if ci, ok := in.(ssa.CallInstruction); ok && ci.Common().StaticCallee() == f && idx >= 0 && idx < len(ci.Common().Args) {
							o := origin(ci.Common().Args[idx], c, d+1)
							if cur == "?" || cur == o {
								cur = o
							} else {
								cur = "conflict"
							}
						}
					})
				}
			}
			if res == "" || res == cur {
				res = cur
			} else {
				res = "conflict"
			}
		}
		if res == "" {
			return "?"
		}
		return res
	}
	var dest func(v ssa.Value, f *ssa.Function, d int) string
	dest = func(v ssa.Value, f *ssa.Function, d int) string {
		if d > 3 || v.Referrers() == nil {
			return "?"
		}
		res := "?"
		for _, u := range *v.Referrers() {
			switch x := u.(type) {
			case *ssa.Store:
				if x.Val == v && strings.HasPrefix(fieldName(x.Addr), stateType+".") {
					res = strings.TrimPrefix(fieldName(x.Addr), stateType+".")
				}
			case *ssa.Return:
				for i, rv := range x.Results {
					if rv != v {
						continue
					}
					for _, c := range staticCallersOf(p, f) {
						instrsOf(c, func(in ssa.Instruction) {
							call, ok := in.(*ssa.Call)
							if !ok || call.Call.StaticCallee() != f || call.Referrers() == nil {
								return
							}
							for _, w := range *call.Referrers() {
								if ex, ok := w.(*ssa.Extract); ok && ex.Index == i {
									if o := dest(ex, c, d+1); o != "?" {
										res = o
									}
								}
							}
							if len(x.Results) == 1 {
								if o := dest(call, c, d+1); o != "?" {
									res = o
								}
							}
						})
					}
				}
			case *ssa.Phi:
				if o := dest(x, f, d+1); o != "?" {
					res = o
				}
			}
		}
		return res
	}
	for _, f := range p.ModuleFuncs("") {
		if f.Pkg != p.MainS {
			continue
		}
		instrsOf(f, func(in ssa.Instruction) {
			switch x := in.(type) {
			case *ssa.Store:
				fn := fieldName(x.Addr)
				if strings.HasPrefix(fn, metaType+".") {
					wf = f
					wp[strings.TrimPrefix(fn, metaType+".")] = origin(x.Val, f, 0)
				}
			case *ssa.UnOp:
				fn := fieldName(x.X)
				if x.Op == token.MUL && strings.HasPrefix(fn, metaType+".") {
					if o := dest(x, f, 0); o != "?" {
						rf = f
						rp[strings.TrimPrefix(fn, metaType+".")] = o
					}
				}
			}
		})
	}
	return
}

func ruleC02MetaSymmetry(r *Run, p *Program, rule string) {
	type pair struct{ writer, reader, meta, state string }
	for _, pr := range []pair{
		{"(*pogreb.index).writeMeta", "(*pogreb.index).readMeta", "pogreb.indexMeta", "pogreb.index"},
		{"(*pogreb.DB).writeMeta", "(*pogreb.DB).readMeta", "pogreb.dbMeta", "pogreb.DB"},
	} {
		wf, rf := p.Fn(pr.writer), p.Fn(pr.reader)
		var wp, rp map[string]string
		if wf != nil && rf != nil {
			wp = metaPairsWriter(wf, pr.meta, pr.state)
			rp = metaPairsReader(rf, pr.meta, pr.state)
		} else {
			// the writer/reader were reshaped (free functions taking and returning the values): follow each metadata field
			// through parameters and results across the package
			wf, rf, wp, rp = metaPairsByFlow(p, pr.meta, pr.state)
		}
		if !r.anchor(rule, pr.writer+" / "+pr.reader, wf != nil && rf != nil) {
			continue
		}
		r.fn(funcKey(wf))
		r.fn(funcKey(rf))
		pr.reader = funcKey(rf)
		// every field of the meta struct is written and read back into the field it came from
		n := p.NamedType(p.Main, strings.TrimPrefix(pr.meta, "pogreb."))
		if !r.anchor(rule, "type "+pr.meta, n != nil) {
			continue
		}
		st := n.Underlying().(*types.Struct)
		for i := 0; i < st.NumFields(); i++ {
			mf := st.Field(i).Name()
			okv := wp[mf] != "" && wp[mf] != "?" && wp[mf] == rp[mf]
			r.check(okv, rule, pr.meta+"."+mf, p.Pos(wf.Pos()), fmt.Sprintf("%s.%s is written from and restored into %s.%s", pr.meta, mf, pr.state, wp[mf]),
				fmt.Sprintf("metadata field %s.%s is written from %s.%s but restored into %s.%s (or not at all): a reopened database addresses its index with different state than it was closed with", pr.meta, mf, pr.state, wp[mf], pr.state, rp[mf]))
		}
		// every mutable state field is persisted
		if pr.state == "pogreb.index" {
			mutated := map[string]bool{}
			for _, g := range p.ModuleFuncs("") {
				k := funcKey(g)
				if k == pr.reader || k == "pogreb.openIndex" {
					continue
				}
				instrsOf(g, func(in ssa.Instruction) {
					if s, ok := in.(*ssa.Store); ok {
						fn := fieldName(s.Addr)
						if strings.HasPrefix(fn, "pogreb.index.") {
							mutated[strings.TrimPrefix(fn, "pogreb.index.")] = true
						}
					}
				})
			}
			persisted := map[string]bool{}
			for _, v := range wp {
				persisted[v] = true
			}
			var ms []string
			for m := range mutated {
				ms = append(ms, m)
			}
			sort.Strings(ms)
			for _, m := range ms {
				r.check(persisted[m], rule, "pogreb.index."+m+":persisted", p.Pos(wf.Pos()), "mutable index state "+m+" is persisted by writeMeta", "index."+m+" changes during a session but is not written by index.writeMeta: it is lost across a clean restart")
			}
			r.universe(rule+":mutable-index-fields", len(ms), 5)
		}
	}
	// names agree
	sites := collectNameSites(p, []string{"pogreb.Open", "(*pogreb.DB).Close"})
	wr, rd := map[string]bool{}, map[string]bool{}
	for _, s := range sites {
		if !strings.HasSuffix(s.Family, ".pmt") {
			continue
		}
		if s.Op == "Open-create" {
			wr[s.Family] = true
		}
		if s.Op == "Open-read" {
			rd[s.Family] = true
		}
	}
	// segment metadata: written under the name the segment was opened with, read under the name it is opened with
	for k := range wr {
		if b, suf := segFamily(k); b == "SEGNAME" {
			wr["SEG"+suf] = true
		}
	}
	for k := range rd {
		if b, suf := segFamily(k); b == "DIRENT" || b == "SEGCANON" {
			rd["SEG"+suf] = true
		}
	}
	for _, fam := range []string{"db.pmt", "index.pmt", "SEG.pmt"} {
		r.check(wr[fam] && rd[fam], rule, "name:"+fam, "", "metadata family "+fam+" is written at Close and read at Open under the same name", fmt.Sprintf("metadata family %s: written=%v read=%v - Close and Open do not agree on the file name", fam, wr[fam], rd[fam]))
	}
	// datalog.close writes seg.meta of the segment it iterates; openSegment reads into the segment's meta
	if f := p.Fn("(*pogreb.datalog).close"); r.anchor(rule, "(*pogreb.datalog).close", f != nil) {
		okv := false
		for _, df := range deepFuncs(p, f) {
			instrsOf(df, func(in ssa.Instruction) {
				c, ok := in.(*ssa.Call)
				if !ok || calleeKey(&c.Call) != "pogreb.writeGobFile" {
					return
				}
				bo, ok := strip(c.Call.Args[1]).(*ssa.BinOp)
				if !ok {
					for _, s := range sources(c.Call.Args[1]) {
						if b2, ok2 := s.(*ssa.BinOp); ok2 {
							bo, ok = b2, true
						}
					}
				}
				if !ok {
					return
				}
				ap := accessPath(nil, c.Call.Args[2])
				np := accessPath(nil, bo.X)
				// the segment may live in a cell captured by a closure: compare what the roots were loaded from
				rootOf := func(a AccessPath) ssa.Value {
					r0 := a.Root
					if u, ok := r0.(*ssa.UnOp); ok {
						return u.X
					}
					return r0
				}
				okv = strings.HasSuffix(ap.Chain, ".meta") && strings.HasSuffix(np.Chain, ".name") && (ap.Root == np.Root || rootOf(ap) == rootOf(np))
			})
		}
		r.check(okv, rule, "(*pogreb.datalog).close:meta-of-segment", p.Pos(f.Pos()), "each segment's own meta is written under that segment's name + .pmt", "datalog.close does not write each segment's own metadata under that segment's name")
	}
}

// ---------- C13 ----------

func ruleC13Lock(r *Run, p *Program, rule string) {
	f := p.Fn("fs.createLockFile")
	if !r.anchor(rule, "fs.createLockFile", f != nil) {
		return
	}
	r.fn(funcKey(f))
	if p.Cfg.GOOS == "windows" || p.Cfg.GOOS == "plan9" {
		r.advisory(rule, "fs.createLockFile["+p.Cfg.GOOS+"]", p.Pos(f.Pos()), "lock acquisition on "+p.Cfg.GOOS+" uses a different primitive (LockFileEx / DMEXCL); the unix re-validation rule does not apply and the implementation cannot be exercised in this sandbox: not decided")
		return
	}
	var flock, same *ssa.Call
	var opens []*ssa.Call
	instrsOf(f, func(in ssa.Instruction) {
		c, ok := in.(*ssa.Call)
		if !ok {
			return
		}
		switch calleeKey(&c.Call) {
		case "syscall.Flock":
			flock = c
		case "os.SameFile":
			same = c
		case "os.OpenFile":
			opens = append(opens, c)
		}
	})
	if !r.anchor(rule, "syscall.Flock call in createLockFile", flock != nil) {
		return
	}
	// the lock file is opened without O_TRUNC/O_EXCL/O_APPEND tricks: an opener that is about to lose must not have
	// modified the owner's file by merely opening it
	otrunc, okTrunc := osConst(p, "O_TRUNC")
	if !okTrunc {
		otrunc = 0x200
	}
	for _, o := range opens {
		fl, isc := constInt(o.Call.Args[1])
		r.check(isc && fl&otrunc == 0, rule, "fs.createLockFile[unix]:open-flags", p.Pos(o.Pos()), "the lock file is opened without O_TRUNC", fmt.Sprintf("the lock file is opened with flags %#x including O_TRUNC: a competing Open empties the live owner's lock file before it fails with the locked error (a failed Open changes the directory)", fl))
	}
	// exclusive, non-blocking
	how, _ := constInt(flock.Call.Args[1])
	r.check(how&2 != 0 && how&4 != 0, rule, "fs.createLockFile[unix]:flock-mode", p.Pos(flock.Pos()), "flock(LOCK_EX|LOCK_NB)", fmt.Sprintf("flock is called with mode %d: the lock must be exclusive (LOCK_EX) and non-blocking (LOCK_NB)", how))
	// the descriptor locked is the file opened here
	fdOK := false
	for _, s := range sources(flock.Call.Args[0]) {
		if cv, ok := s.(*ssa.Convert); ok {
			if c, ok := cv.X.(*ssa.Call); ok && calleeKey(&c.Call) == "(*os.File).Fd" {
				fdOK = true
			}
		}
	}
	r.check(fdOK, rule, "fs.createLockFile[unix]:flock-fd", p.Pos(flock.Pos()), "the descriptor locked is that of the opened lock file", "flock is not applied to the descriptor of the opened lock file")
	// success only after a successful flock and a re-validation made after it
	n := 0
	for _, ret := range returnsOf(f) {
		if isFailureReturn(f, ret) {
			continue
		}
		n++
		locked := controlledBy(f, ret, func(c *Cond) bool { e := errNilEdge(c); return e != nil && valueOfCall(e, flock) })
		r.check(locked, rule, "fs.createLockFile[unix]:success-after-flock", p.Pos(instrPos(ret)), "success is returned only after flock succeeded", "createLockFile can return success without holding the flock")
		reval := same != nil && controlledBy(f, ret, func(c *Cond) bool {
			return c.Op == token.ILLEGAL && c.Pos && strip(c.V) == ssa.Value(same)
		}) && mustPrecedeInstr(f, same, flock)
		// the two FileInfos compared: one from the locked descriptor, one from the path
		if reval {
			fromFd, fromPath := false, false
			for _, a := range same.Call.Args {
				for _, s := range sources(a) {
					if c, _ := callResult(s); c != nil {
						switch calleeKey(&c.Call) {
						case "(*os.File).Stat":
							fromFd = mustPrecedeInstr(f, c, flock)
						case "os.Stat":
							fromPath = mustPrecedeInstr(f, c, flock)
						}
					}
				}
			}
			reval = fromFd && fromPath
		}
		r.check(reval, rule, "fs.createLockFile[unix]", p.Pos(instrPos(ret)),
			"after flock succeeded the locked descriptor is compared (os.SameFile of fstat and stat made after the flock) with the file the path names now; success only when they are the same file",
			"createLockFile returns success right after flock without re-validating, after the flock, that the path still names the locked inode: Unlock removes the path before closing, so an opener that opened before the owner's unlink and locked after its close holds a lock on an unlinked file while the next opener creates and locks a new one (two holders)")
	}
	r.universe(rule, n, 1)
	// the 'already existed' flag returned with the lock describes the attempt that acquired it: it is not carried over
	// from an earlier turn of the retry loop (an opener that starts over after the owner's clean unlink creates a fresh
	// lock file; reporting 'existed' for it makes Open run recovery on a cleanly closed database)
	for _, ret := range returnsOf(f) {
		if isFailureReturn(f, ret) || len(ret.Results) != 3 {
			continue
		}
		r.check(!loopCarried(ret.Results[1], map[ssa.Value]bool{}), rule, "fs.createLockFile[unix]:existed-fresh", p.Pos(instrPos(ret)),
			"the 'already existed' flag is computed in the attempt that acquires the lock",
			"the 'already existed' flag returned with the lock can come from an earlier turn of the retry loop: after starting over (the owner unlinked the file between this opener's open and flock) the opener creates a new lock file but still reports that it existed, and Open moves the metadata aside and replays the log of a database that was closed cleanly")
	}
	// a failed flock does not leak success and maps EWOULDBLOCK to ErrExist
	// Unlock order: remove the path, then close (the re-validation depends on it)
	if u := p.Fn("(*fs.osLockFile).Unlock"); r.anchor(rule, "(*fs.osLockFile).Unlock", u != nil) {
		r.fn(funcKey(u))
		var rm, cl ssa.Instruction
		instrsOf(u, func(in ssa.Instruction) {
			if c, ok := in.(*ssa.Call); ok {
				switch calleeKey(&c.Call) {
				case "os.Remove":
					rm = c
				case "(*os.File).Close":
					cl = c
				}
			}
		})
		if r.anchor(rule, "os.Remove and Close in osLockFile.Unlock", rm != nil && cl != nil) {
			r.check(mustPrecedeInstr(u, cl, rm), rule, "(*fs.osLockFile).Unlock:remove-then-close", p.Pos(cl.Pos()),
				"the lock file is unlinked while the flock is still held, then closed", "Unlock closes the descriptor (releasing the flock) before unlinking the path: an opener that locks and re-validates between the close and the unlink passes the check and then holds a lock on a file that is about to be unlinked, while the next opener creates a new one (two holders)")
		}
	}
	// acquisition never unlinks the lock path: only the holder's Unlock does
	rmInAcq := false
	deepInstrs(p, f, func(in ssa.Instruction) {
		if c, ok := in.(*ssa.Call); ok && (calleeKey(&c.Call) == "os.Remove" || calleeKey(&c.Call) == "os.RemoveAll" || calleeKey(&c.Call) == "os.Rename") {
			rmInAcq = true
			r.bad(rule, "fs.createLockFile[unix]:no-unlink", p.Pos(c.Pos()), "lock acquisition unlinks/renames the lock path: stat+open(O_CREATE) is not atomic, so an opener that lost the race can remove the winner's lock file; the winner then holds a lock on an unreachable file and the next opener succeeds (two holders), and a failed Open has changed the directory")
		}
	})
	if !rmInAcq {
		r.ok(rule, "fs.createLockFile[unix]:no-unlink", p.Pos(f.Pos()), "lock acquisition never unlinks the lock path", true)
	}
	// existed flag: advisory (Stat precedes the creating open)
	r.advisory(rule+".existed-atomic", "fs.createLockFile[unix]", p.Pos(f.Pos()), "the 'lock file already existed' flag is derived from an os.Stat made before the creating open (check-then-act): an opener interleaved with a closing owner can report 'existed' for a cleanly closed database (spurious but harmless recovery). Not armed: closing the window entirely needs a different lock protocol, see DESIGN.md")
}

func ruleC13Mem(r *Run, p *Program, rule string) {
	f := p.Fn("(*fs.memFS).CreateLockFile")
	if !r.anchor(rule, "(*fs.memFS).CreateLockFile", f != nil) {
		return
	}
	r.fn(funcKey(f))
	// a held lock (refs > 0) is refused with os.ErrExist
	okv := false
	for _, ret := range returnsOf(f) {
		if len(ret.Results) == 3 && globalLoad(retOperand(ret, 2)) == "os.ErrExist" {
			okv = controlledBy(f, ret, func(c *Cond) bool {
				return c.Op == token.GTR && c.Pos && isFieldLoad(c.X, "fs.memFile.refs")
			})
		}
	}
	r.check(okv, rule, "(*fs.memFS).CreateLockFile:refuses-held", p.Pos(f.Pos()), "an in-memory lock that is held (refs > 0) is refused with os.ErrExist", "the in-memory lock file does not refuse a second holder")
	// success returns are unreachable when held
	for _, ret := range returnsOf(f) {
		if isFailureReturn(f, ret) {
			continue
		}
		// the existed flag is the map lookup's ok
		if len(ret.Results) == 3 {
			ex, ok := strip(ret.Results[1]).(*ssa.Extract)
			_, isLookup := func() (*ssa.Lookup, bool) {
				if !ok {
					return nil, false
				}
				l, ok2 := ex.Tuple.(*ssa.Lookup)
				return l, ok2
			}()
			r.check(ok && isLookup && ex.Index == 1, rule, "(*fs.memFS).CreateLockFile:existed", p.Pos(instrPos(ret)), "'already existed' is the presence of the name in the file table", "the in-memory file system does not report whether the lock file already existed")
		}
	}
}

// ---------- C16 ----------

func intBits(t types.Type, is386 bool) (bits int, signed bool, ok bool) {
	b, isb := t.Underlying().(*types.Basic)
	if !isb {
		return 0, false, false
	}
	w := 64
	if is386 {
		w = 32
	}
	switch b.Kind() {
	case types.Int8:
		return 8, true, true
	case types.Int16:
		return 16, true, true
	case types.Int32:
		return 32, true, true
	case types.Int64:
		return 64, true, true
	case types.Int:
		return w, true, true
	case types.Uint8:
		return 8, false, true
	case types.Uint16:
		return 16, false, true
	case types.Uint32:
		return 32, false, true
	case types.Uint64:
		return 64, false, true
	case types.Uint, types.Uintptr:
		return w, false, true
	}
	return 0, false, false
}

// canonSrc describes the source of a conversion without local names.
func canonSrc(v ssa.Value) string {
	v = strip(v)
	switch x := v.(type) {
	case *ssa.Call:
		if b, ok := x.Call.Value.(*ssa.Builtin); ok && b.Name() == "len" {
			return "len(" + canonSrc(x.Call.Args[0]) + ")"
		}
		if k := calleeKey(&x.Call); k != "" {
			return k + "()"
		}
		return "call"
	case *ssa.Parameter:
		return "param:" + typeName(x.Type())
	case *ssa.FreeVar:
		return "captured:" + typeName(x.Type())
	case *ssa.UnOp:
		if x.Op == token.MUL {
			if fn := fieldName(x.X); fn != "" {
				return fn
			}
			if fv, ok := x.X.(*ssa.FreeVar); ok {
				return "captured:" + typeName(derefType(fv.Type()))
			}
			if a, ok := x.X.(*ssa.Alloc); ok {
				st := allocStores(a)
				if len(st) == 1 {
					return canonSrc(st[0])
				}
				return "local"
			}
		}
		return "unop"
	case *ssa.Field:
		return fieldName(x)
	case *ssa.Extract:
		if c, ok := x.Tuple.(*ssa.Call); ok {
			return fmt.Sprintf("%s#%d", calleeKey(&c.Call), x.Index)
		}
		return "rangeindex"
	case *ssa.BinOp:
		if _, isPhi := strip(x.X).(*ssa.Phi); isPhi {
			if _, isC := x.Y.(*ssa.Const); isC && (x.Op == token.ADD || x.Op == token.SUB) {
				return "loopindex"
			}
		}
		return canonSrc(x.X) + x.Op.String() + canonSrc(x.Y)
	case *ssa.Const:
		return "const"
	case *ssa.Phi:
		return "loopindex"
	case *ssa.Convert:
		return canonSrc(x.X)
	case *ssa.Slice:
		return "slice"
	}
	return "?"
}

// narrowingTable: reviewed narrowing / sign-changing conversions of package pogreb (function: target(source) -> justification).
var narrowingTable = map[string]string{
	"(*pogreb.DB).Get$1:uint16(len(captured:[]byte))":                 "comparison idiom: a truncated length can only produce a false length match, which the following bytes.Equal (C01.match-equal) rejects",
	"(*pogreb.DB).GetAppend$1:uint16(len(captured:[]byte))":           "comparison idiom, see Get",
	"(*pogreb.DB).Has$1:uint16(len(captured:[]byte))":                 "comparison idiom, see Get",
	"(*pogreb.DB).put$1:uint16(len(captured:[]byte))":                 "comparison idiom, see Get; in Put the key length was bounded before",
	"(*pogreb.DB).del$1:uint16(len(captured:[]byte))":                 "comparison idiom, see Get",
	"(*pogreb.DB).Put:uint16(len(param:[]byte))":                      "guarded: Put returns errKeyTooLarge when len(key) > MaxKeyLength (<= MaxUint16) before this point [checked by C16.reject-before-effect]",
	"(*pogreb.DB).Put:uint32(len(param:[]byte))":                      "guarded: Put returns errValueTooLarge when len(value) > MaxValueLength (< 2^31) before this point",
	"*:uint16(len(pogreb.record.key))":                                "bounded source: record.key is data[6:6+keySize] with keySize decoded from 16 bits",
	"*:uint32(len(pogreb.record.value))":                              "bounded source: record.value has a length decoded from 31 bits",
	"*:uint32(len(pogreb.record.data))":                               "bounded source: record.data is 10+K+V with K<2^16, V<2^31",
	"(*pogreb.DB).pickForCompaction:uint32(pogreb.file.size)":         "segment size is bounded by maxSegmentSize (uint32) through the guard in writeRecord",
	"(*pogreb.datalog).del:uint32(len(pogreb.encodeDeleteRecord()))":  "delete record is 10+K bytes, K <= 65535",
	"(*pogreb.datalog).writeRecord:uint32((*pogreb.file).append#0)":   "guarded: the append offset is < maxSegmentSize (uint32) by the size test at the top of writeRecord",
	"pogreb.encodeRecord:uint32(len(param:[]byte)+len(param:[]byte))": "callers bound key (<=65535) and value (<2^31) lengths: Put's checks; delete records carry no value; recovery/compaction re-encode nothing",
	"pogreb.encodeRecord:uint16(len(param:[]byte))":                   "see above: key length bounded by Put / by the stored key matched in Delete",
	"pogreb.encodeRecord:uint32(len(param:[]byte))":                   "see above: value length bounded by Put",
	"*:uint64(pogreb.bucket.next)":                                    "same-width reinterpretation of a non-negative file offset",
	"*:int64((encoding/binary.littleEndian).Uint64())":                "same-width reinterpretation of a stored file offset",
	"*:int64(pogreb.segmentIterator.offset)":                          "widening (uint32 -> int64)",
	"*:uint16(strconv.ParseUint#0)":                                   "accepted only for ParseUint(.., 10, 16): checked by C18.names",
}

func ruleC16Narrowing(r *Run, p *Program, rule string) {
	is386 := p.Cfg.GOARCH == "386"
	n := 0
	seen := map[string]bool{}
	for _, f := range p.ModuleFuncs("") {
		if f.Pkg != p.MainS {
			continue
		}
		instrsOf(f, func(in ssa.Instruction) {
			cv, ok := in.(*ssa.Convert)
			if !ok {
				return
			}
			if _, isc := cv.X.(*ssa.Const); isc {
				return
			}
			tb, ts, ok1 := intBits(cv.Type(), is386)
			sb, ss, ok2 := intBits(cv.X.Type(), is386)
			if !ok1 || !ok2 {
				return
			}
			narrowing := tb < sb || (tb == sb && ts != ss) || (tb > sb && ss && !ts)
			if !narrowing {
				return
			}
			n++
			r.fn(funcKey(f))
			key := funcKey(f) + ":" + typeName(cv.Type()) + "(" + canonSrc(cv.X) + ")"
			if seen[key] {
				return
			}
			seen[key] = true
			if why, ok := narrowingTable[key]; ok {
				r.ok(rule, key, p.Pos(cv.Pos()), "reviewed: "+why, false)
				return
			}
			if why, ok := narrowingTable["*:"+typeName(cv.Type())+"("+canonSrc(cv.X)+")"]; ok {
				r.ok(rule, key, p.Pos(cv.Pos()), "reviewed (by source): "+why, false)
				return
			}
			// comparison idiom inside any key callback: uint16(len(sought key)) compared with slot.keySize, backed by the
			// full key comparison that C01/C16.match-equal demands of every callback
			if typeName(cv.Type()) == "uint16" && strings.HasPrefix(canonSrc(cv.X), "len(") && onlyComparedWithKeySize(cv, 0) {
				r.ok(rule, key, p.Pos(cv.Pos()), "comparison idiom in a key callback: a truncated length can only cause a false length match, rejected by the full key comparison", true)
				return
			}
			// a loop index bounded by a constant that fits the target type (range over a fixed-size array)
			if canonSrc(cv.X) == "loopindex" && tb < 63 && controlledBy(f, cv, func(c *Cond) bool {
				if c.X == nil || !c.Pos || c.Op != token.LSS || c.X != cv.X {
					return false
				}
				k, isk := constInt(c.Y)
				return isk && k >= 0 && k <= int64(1)<<uint(tb)
			}) {
				r.ok(rule, key, p.Pos(cv.Pos()), "the converted value is a loop index bounded by a constant that fits "+typeName(cv.Type()), true)
				return
			}
			// int -> int64 style conversions are widening on every platform; uint32(int) etc. need a reason
			r.bad(rule, key, p.Pos(cv.Pos()), fmt.Sprintf("narrowing or sign-changing conversion %s(%s) of a non-constant (%d->%d bits) is not in the reviewed table: a length or offset may be silently truncated into an on-disk field", typeName(cv.Type()), canonSrc(cv.X), sb, tb))
		})
	}
	r.universe(rule, n, 14)
	// arithmetic carried out in a narrow type
	na := 0
	for _, f := range p.ModuleFuncs("") {
		if f.Pkg != p.MainS {
			continue
		}
		instrsOf(f, func(in ssa.Instruction) {
			bo, ok := in.(*ssa.BinOp)
			if !ok {
				return
			}
			switch bo.Op {
			case token.ADD, token.SUB, token.MUL, token.SHL:
			default:
				return
			}
			bits, _, ok := intBits(bo.Type(), is386)
			if !ok || bits >= 32 {
				return
			}
			if _, c1 := bo.X.(*ssa.Const); c1 {
				if _, c2 := bo.Y.(*ssa.Const); c2 {
					return
				}
			}
			na++
			key := funcKey(f) + ":" + typeName(bo.Type()) + ":" + canonSrc(bo.X) + bo.Op.String() + canonSrc(bo.Y)
			okv := strings.Contains(key, "pogreb.index.level") // level (uint8) counts doublings of a uint32 bucket count: <= 32
			r.check(okv, rule+":narrow-arith", key, p.Pos(bo.Pos()), "reviewed: index.level is bounded by 32 (numBuckets is uint32)", "arithmetic is carried out in a "+typeName(bo.Type())+" ("+fmt.Sprint(bits)+" bits) on non-constant operands: the result wraps for admissible key sizes near 65535 / segment ids")
		})
	}
	r.universe(rule+":narrow-arith", na, 1)
}

func constVal(p *Program, name string) (constant.Value, bool) {
	c, ok := p.Main.Types.Scope().Lookup(name).(*types.Const)
	if !ok {
		return nil, false
	}
	return c.Val(), true
}

func ruleC16Consts(r *Run, p *Program, rule string) {
	mk, ok1 := constVal(p, "MaxKeyLength")
	mv, ok2 := constVal(p, "MaxValueLength")
	ms, ok3 := constVal(p, "maxSegments")
	hs, ok4 := constVal(p, "headerSize")
	if !r.anchor(rule, "constants MaxKeyLength, MaxValueLength, maxSegments, headerSize", ok1 && ok2 && ok3 && ok4) {
		return
	}
	le := func(a constant.Value, b int64) bool { return constant.Compare(a, token.LEQ, constant.MakeInt64(b)) }
	r.check(le(mk, 65535), rule, "MaxKeyLength<=MaxUint16", "", "MaxKeyLength ("+mk.ExactString()+") fits the 16-bit key-size fields", "MaxKeyLength is "+mk.ExactString()+" but key sizes are stored in 16 bits (record header, index slot): a key of that length is accepted and its length truncated")
	r.check(constant.Compare(mk, token.EQL, constant.MakeInt64(65535)), rule, "MaxKeyLength==65535", "", "every key length 0..65535 is admissible", "MaxKeyLength is "+mk.ExactString()+": the documented limit (65535) changed")
	r.check(le(mv, 1<<31-1), rule, "MaxValueLength<2^31", "", "MaxValueLength ("+mv.ExactString()+") fits the 31-bit value-size field", "MaxValueLength exceeds the 31-bit value-size field (bit 31 is the record type)")
	r.check(constant.Compare(mv, token.EQL, constant.MakeInt64(512<<20)), rule, "MaxValueLength==512MiB", "", "the documented 512 MiB limit", "MaxValueLength is "+mv.ExactString()+": the documented limit (512 MiB) changed")
	sum := constant.BinaryOp(constant.BinaryOp(mk, token.ADD, mv), token.ADD, constant.BinaryOp(constant.MakeInt64(10), token.ADD, hs))
	r.check(le(sum, 1<<32-1), rule, "record+header<=MaxUint32", "", "a maximal record fits a segment (offsets are 32 bit)", "a maximal record does not fit the 32-bit segment offsets")
	r.check(le(ms, 32767), rule, "maxSegments<=MaxInt16", "", "segment ids fit 16 bits", "maxSegments exceeds what the 16-bit segment id can address")
}

func ruleC16Reject(r *Run, p *Program, rule string) {
	f := p.Fn("(*pogreb.DB).Put")
	if !r.anchor(rule, "(*pogreb.DB).Put", f != nil) {
		return
	}
	r.fn(funcKey(f))
	isLimit := func(param int, cname string) func(c *Cond) bool {
		return func(c *Cond) bool {
			// len(param) > CONST is false on this edge  (i.e. len <= CONST)
			if c.Op != token.GTR || c.Pos {
				return false
			}
			call, ok := strip(c.X).(*ssa.Call)
			if !ok {
				return false
			}
			b, ok := call.Call.Value.(*ssa.Builtin)
			if !ok || b.Name() != "len" {
				return false
			}
			pa, ok := strip(call.Call.Args[0]).(*ssa.Parameter)
			if !ok || paramIndex(pa) != param {
				return false
			}
			k, ok := constInt(c.Y)
			cv, ok2 := constVal(p, cname)
			if !ok || !ok2 {
				return false
			}
			want, _ := constant.Int64Val(cv)
			return k == want
		}
	}
	// every call (other than len) in Put is reachable only after both limit checks passed
	first := map[string]bool{}
	bad := false
	instrsOf(f, func(in ssa.Instruction) {
		c, ok := in.(*ssa.Call)
		if !ok {
			return
		}
		if b, ok := c.Call.Value.(*ssa.Builtin); ok && b.Name() == "len" {
			return
		}
		k := callString(&c.Call)
		if first[k] {
			return
		}
		first[k] = true
		ok1 := controlledBy(f, c, isLimit(1, "MaxKeyLength"))
		ok2 := controlledBy(f, c, isLimit(2, "MaxValueLength"))
		if !ok1 || !ok2 {
			bad = true
			r.bad(rule, "(*pogreb.DB).Put->"+k, p.Pos(c.Pos()), "Put calls "+k+" on a path where the key/value length limits were not both checked first (len(key) <= MaxKeyLength, len(value) <= MaxValueLength): an over-long Put is not rejected before it has an effect")
		}
	})
	if !bad {
		r.ok(rule, "(*pogreb.DB).Put", p.Pos(f.Pos()), fmt.Sprintf("all %d distinct calls of Put are reachable only after both length limits were checked against MaxKeyLength / MaxValueLength", len(first)), true)
	}
	// the failing returns report the dedicated errors
	errs := map[string]bool{}
	for _, ret := range returnsOf(f) {
		errs[globalLoad(retOperand(ret, 0))] = true
	}
	r.check(errs["pogreb.errKeyTooLarge"] && errs["pogreb.errValueTooLarge"], rule, "(*pogreb.DB).Put:errors", p.Pos(f.Pos()), "over-long keys/values are rejected with errKeyTooLarge / errValueTooLarge", "Put does not return errKeyTooLarge and errValueTooLarge")
	// look-ups with over-long keys: the length comparison idiom must be followed by the full key comparison (C01.match-equal)
}

// ---------- C17 ----------

// sourcesThroughMax is sources(v) that also looks through max(a, b): the builtin, or a function proved to return the
// larger of its two arguments.
func sourcesThroughMax(v ssa.Value) []ssa.Value {
	var out []ssa.Value
	for _, s := range sources(v) {
		out = append(out, s)
		c, ok := strip(s).(*ssa.Call)
		if !ok {
			continue
		}
		isMax := false
		if b, ok := c.Call.Value.(*ssa.Builtin); ok && b.Name() == "max" {
			isMax = true
		} else if g := c.Call.StaticCallee(); g != nil && isMaxFunc(g) {
			isMax = true
		}
		if isMax {
			for _, a := range c.Call.Args {
				out = append(out, sources(a)...)
			}
		}
	}
	return out
}

func ruleC17(r *Run, p *Program, rule string) {
	// size bookkeeping of osMMapFile and memFile
	type impl struct {
		typ, sizeField string
		methods        []string
		needRemap      bool
	}
	for _, im := range []impl{
		{"osMMapFile", "fs.osMMapFile.size", []string{"Write", "WriteAt", "Truncate"}, true},
		{"memFile", "fs.memFile.size", []string{"WriteAt", "Truncate"}, false},
	} {
		for _, m := range im.methods {
			key := "(*fs." + im.typ + ")." + m
			f := p.Fn(key)
			if !r.anchor(rule+".size-bookkeeping", key, f != nil) {
				continue
			}
			r.fn(key)
			w, _ := allNodes(p, f)
			stores := 0
			for nd := range w.Reached {
				if st, ok := nd.In.(*ssa.Store); ok && fieldName(st.Addr) == im.sizeField {
					stores++
				}
			}
			r.check(stores > 0, rule+".size-bookkeeping", key+":updates-size", p.Pos(f.Pos()), key+" maintains the logical file size", key+" changes the file length without maintaining "+im.sizeField+": Slice bounds and later reads disagree with the real file (reads through the mapping differ from plain reads)")
			if im.needRemap {
				okv := mustCallOnSuccessDeep(f, func(c *ssa.Call) bool { return calleeKey(&c.Call) == "(*fs.osMMapFile).mremap" }, 0)
				r.check(okv, rule+".size-bookkeeping", key+":remaps", p.Pos(f.Pos()), "every success return re-establishes the mapping (mremap)", key+" can return success without re-establishing the mapping for the new size")
			}
			// Truncate: the size becomes exactly the argument
			if m == "Truncate" {
				exact := false
				for nd := range w.Reached {
					if st, ok := nd.In.(*ssa.Store); ok && fieldName(st.Addr) == im.sizeField {
						if pa, ok := strip(st.Val).(*ssa.Parameter); ok && pa.Name() == "size" {
							exact = true
						}
					}
				}
				r.check(exact, rule+".size-bookkeeping", key+":size=arg", p.Pos(f.Pos()), "after Truncate(n) the logical size is n (shrinking included)", key+" does not set the logical size to its argument: after recovery truncates a torn tail the mapped file still reports the old length")
			}
		}
	}
	// the mapped file tracks the file position itself (Write derives the logical size from it): every method that moves the
	// OS file position must be overridden, not promoted from *os.File
	if impl := p.NamedType(p.FS, "osMMapFile"); r.anchor(rule+".size-bookkeeping", "type fs.osMMapFile", impl != nil) {
		usesOffset := false
		if wf := p.Fn("(*fs.osMMapFile).Write"); wf != nil {
			instrsOf(wf, func(in ssa.Instruction) {
				if u, ok := in.(*ssa.UnOp); ok && fieldName(u.X) == "fs.osMMapFile.offset" {
					usesOffset = true
				}
			})
		}
		if usesOffset {
			for _, m := range []string{"Read", "Write", "Seek"} {
				sel := lookupMethod(impl, m)
				own := sel != nil && sel.Pkg() != nil && sel.Pkg().Path() == fsPath
				r.check(own, rule+".size-bookkeeping", "(*fs.osMMapFile)."+m+":tracks-position", "", m+" of the mapped file maintains the tracked file position", "(*fs.osMMapFile)."+m+" is promoted from *os.File and does not maintain osMMapFile.offset, from which Write computes the logical size that bounds Slice: after a "+m+" the mapped file reports appended data as beyond EOF while the other file systems return it")
			}
		}
	}
	// the in-memory file grows by appending zeroes whenever the new size exceeds the logical size (not merely the capacity)
	if tf := p.Fn("(*fs.memFile).truncate"); r.anchor(rule+".size-bookkeeping", "(*fs.memFile).truncate", tf != nil) {
		r.fn(funcKey(tf))
		okg := false
		instrsOf(tf, func(in ssa.Instruction) {
			c, ok := in.(*ssa.Call)
			if !ok {
				return
			}
			if b, ok := c.Call.Value.(*ssa.Builtin); ok && b.Name() == "append" {
				okg = controlledBy(tf, c, func(cd *Cond) bool {
					if cd.Op != token.GTR || !cd.Pos {
						return false
					}
					_, isParam := strip(cd.X).(*ssa.Parameter)
					return isParam && isFieldLoad(cd.Y, "fs.memFile.size")
				})
			}
		})
		// and no growth path that only reslices: a Slice of f.buf with a high bound under "size > f.size"
		resliceGrow := false
		instrsOf(tf, func(in ssa.Instruction) {
			sl, ok := in.(*ssa.Slice)
			if !ok || !isFieldLoad(sl.X, "fs.memFile.buf") {
				return
			}
			if !controlledBy(tf, sl, func(cd *Cond) bool {
				// reachable only when size <= f.size
				if cd.Op != token.GTR || cd.Pos {
					return false
				}
				_, isParam := strip(cd.X).(*ssa.Parameter)
				return isParam && isFieldLoad(cd.Y, "fs.memFile.size")
			}) {
				resliceGrow = true
			}
		})
		r.check(okg && !resliceGrow, rule+".size-bookkeeping", "(*fs.memFile).truncate:zero-fill", p.Pos(tf.Pos()), "growing the in-memory file appends zero bytes whenever the new size exceeds the logical size; reslicing is used only to shrink", "the in-memory file can grow by reslicing its buffer (when the capacity allows) instead of appending zeroes: after a shrink (recovery truncating a torn tail) and a later extension the old bytes reappear, where the OS file systems return zeroes")
	}
	// mapping growth: mremap doubles once per growth, so one write must never more than double the file: the initial
	// mapping has to be at least as large as the largest single write (a maximal record)
	{
		c, ok := p.FS.Types.Scope().Lookup("initialMmapSize").(*types.Const)
		mk, ok1 := constVal(p, "MaxKeyLength")
		mv, ok2 := constVal(p, "MaxValueLength")
		if r.anchor(rule+".mapping-covers-file", "constants initialMmapSize, MaxKeyLength, MaxValueLength", ok && ok1 && ok2) {
			loops := false
			if mf := p.Fn("(*fs.osMMapFile).mremap"); mf != nil {
				instrsOf(mf, func(in ssa.Instruction) {
					if bo, ok := in.(*ssa.BinOp); ok && bo.Op == token.MUL && inCycle(bo.Block()) {
						loops = true
					}
				})
			}
			step := constant.BinaryOp(constant.BinaryOp(mk, token.ADD, mv), token.ADD, constant.MakeInt64(10+512))
			okc := loops || constant.Compare(c.Val(), token.GEQ, step)
			r.check(okc, rule+".mapping-covers-file", "fs.initialMmapSize", p.Pos(c.Pos()), "the initial mapping ("+c.Val().ExactString()+" bytes) is at least one maximal record, so the single doubling in mremap always covers the file after a write", "the initial mapping ("+c.Val().ExactString()+" bytes) is smaller than a maximal record while mremap doubles the mapping only once per growth: after one large write the mapping is shorter than the file, Slice (which trusts the logical size) indexes past it and reads panic on the mapped file system only")
		}
	}
	// Slice guards
	for _, s := range []struct{ typ, size, data string }{{"osMMapFile", "fs.osMMapFile.size", "fs.osMMapFile.data"}, {"memFile", "fs.memFile.size", "fs.memFile.buf"}} {
		key := "(*fs." + s.typ + ").Slice"
		f := p.Fn(key)
		if !r.anchor(rule+".slice-guards", key, f != nil) {
			continue
		}
		r.fn(key)
		instrsOf(f, func(in ssa.Instruction) {
			sl, ok := in.(*ssa.Slice)
			if !ok || !isFieldLoad(sl.X, s.data) {
				return
			}
			okv := controlledBy(f, sl, func(c *Cond) bool {
				if c.Op != token.GTR || c.Pos {
					return false
				}
				pa, ok := strip(c.X).(*ssa.Parameter)
				return ok && pa.Name() == "end" && isFieldLoad(c.Y, s.size)
			})
			r.check(okv, rule+".slice-guards", key+":end<=size", p.Pos(sl.Pos()), "Slice indexes the backing memory only when end <= logical size (io.EOF otherwise)", key+" can index the backing memory beyond the logical file size: on the mapped file system a read past EOF returns bytes / faults where the plain file systems return io.EOF")
		})
		// EOF is what is returned
		eof := false
		for _, ret := range returnsOf(f) {
			if globalLoad(retOperand(ret, 1)) == "io.EOF" {
				eof = true
			}
		}
		r.check(eof, rule+".slice-guards", key+":eof", p.Pos(f.Pos()), "out-of-range Slice returns io.EOF", key+" does not return io.EOF for an out-of-range request (the other implementations do)")
	}
	// directory entries: Info() of a listed entry does not depend on whether the file is open (the OS file systems
	// lstat the name); the in-memory entry must not fail for a file without open handles
	if f := p.Fn("(*fs.memFile).Info"); r.anchor(rule+".direntry-info", "(*fs.memFile).Info", f != nil) {
		r.fn(funcKey(f))
		okv := len(returnsOf(f)) > 0
		for _, ret := range returnsOf(f) {
			if !isNilReturn(f, ret) {
				okv = false
			}
		}
		r.check(okv, rule+".direntry-info", "(*fs.memFile).Info", p.Pos(f.Pos()),
			"the in-memory directory entry's Info() always succeeds, like lstat on the OS file systems",
			"the in-memory directory entry's Info() can fail (it goes through Stat(), which refuses files without an open handle) where the OS file systems succeed: DB.FileSize and any code sizing listed files returns 'file already closed' on fs.Mem and a size on fs.OS / fs.OSMMap")
	}
	// mapping size depends on the file size when a file is first mapped
	if f := p.Fn("(*fs.osMMapFile).mremap"); r.anchor(rule+".mapping-covers-file", "(*fs.osMMapFile).mremap", f != nil) {
		r.fn(funcKey(f))
		found := false
		instrsOf(f, func(in ssa.Instruction) {
			c, ok := in.(*ssa.Call)
			if !ok || calleeKey(&c.Call) != "(*fs.osMMapFile).mmap" || len(c.Call.Args) != 3 {
				return
			}
			found = true
			hasSize := false
			for _, s := range sourcesThroughMax(c.Call.Args[2]) {
				if isFieldLoad(s, "fs.osMMapFile.size") {
					hasSize = true
				}
			}
			r.check(hasSize, rule+".mapping-covers-file", funcKey(f)+":first-mapping", p.Pos(c.Pos()), "the mapping length takes the file size into account (a file opened larger than the initial mapping is mapped whole)", "the length of the mapping does not depend on the file size: a file that is already larger than the initial mapping when opened is mapped only partially while Slice trusts the logical size (slice bounds panic on reopen of a large segment)")
		})
		r.anchor(rule+".mapping-covers-file", "mmap call in mremap", found)
		// mremap returns early only when the mapping already covers the file
		okEarly := true
		for _, ret := range returnsOf(f) {
			if !isNilReturn(f, ret) {
				continue
			}
			// either after the mmap call, or under mmapSize >= size
			after := false
			instrsOf(f, func(in ssa.Instruction) {
				if c, ok := in.(*ssa.Call); ok && calleeKey(&c.Call) == "(*fs.osMMapFile).mmap" {
					if !mustNotFollow(f, c, ret) {
						after = true
					}
				}
			})
			if after {
				continue
			}
			cov := controlledBy(f, ret, func(c *Cond) bool {
				if c.Op != token.GEQ || !c.Pos {
					return false
				}
				return isFieldLoad(c.X, "fs.osMMapFile.mmapSize") && isFieldLoad(c.Y, "fs.osMMapFile.size")
			})
			if !cov {
				okEarly = false
			}
		}
		r.check(okEarly, rule+".mapping-covers-file", funcKey(f)+":early-return", p.Pos(f.Pos()), "mremap skips remapping only when mmapSize >= size", "mremap can return without remapping although the mapping does not cover the file")
	}
	// the mapping is read-only and never written through
	for _, f := range p.ModuleFuncs("fs.") {
		instrsOf(f, func(in ssa.Instruction) {
			st, ok := in.(*ssa.Store)
			if !ok {
				return
			}
			if ia, ok := st.Addr.(*ssa.IndexAddr); ok && isFieldLoad(ia.X, "fs.osMMapFile.data") {
				r.bad(rule+".mapping-read-only", funcKey(f), p.Pos(st.Pos()), "a store goes through the file mapping: the mapping is PROT_READ (fault) and writes must go through pwrite so that all file systems see the same bytes")
			}
		})
	}
	if f := p.Fn("fs.mmap"); r.anchor(rule+".mapping-read-only", "fs.mmap", f != nil) && p.Cfg.GOOS != "windows" {
		instrsOf(f, func(in ssa.Instruction) {
			if c, ok := in.(*ssa.Call); ok && calleeKey(&c.Call) == "syscall.Mmap" {
				prot, _ := constInt(c.Call.Args[3])
				r.check(prot == 1, rule+".mapping-read-only", "fs.mmap:prot", p.Pos(c.Pos()), "files are mapped PROT_READ", "the file mapping is not read-only")
			}
		})
	}
	// package pogreb does not depend on the concrete file system
	n := 0
	for _, f := range p.ModuleFuncs("") {
		if f.Pkg != p.MainS {
			continue
		}
		instrsOf(f, func(in ssa.Instruction) {
			ta, ok := in.(*ssa.TypeAssert)
			if !ok {
				return
			}
			tn := typeName(ta.X.Type())
			if types.Identical(ta.AssertedType, ta.X.Type()) {
				return // nil check emitted for a method value of an interface
			}
			if it, ok := ta.AssertedType.Underlying().(*types.Interface); ok && types.Implements(ta.X.Type(), it) {
				return // up-cast to an embedded interface (nil check for a method value)
			}
			if tn == "fs.File" || tn == "fs.FileSystem" || tn == "fs.LockFile" {
				n++
				r.bad(rule+".fs-oblivious", funcKey(f), p.Pos(ta.Pos()), "package pogreb inspects the dynamic type of an "+tn+": behaviour depends on the FileSystem implementation")
			}
		})
	}
	if n == 0 {
		r.ok(rule+".fs-oblivious", "pogreb", "", "no type assertion / type switch on fs.File, fs.FileSystem or fs.LockFile in package pogreb", true)
	}
}

// onlyComparedWithKeySize: every use of v (directly, through a local cell, or captured by a closure) is an (in)equality
// comparison with slot.keySize.
func onlyComparedWithKeySize(v ssa.Value, d int) bool {
	refs := v.Referrers()
	if refs == nil || len(*refs) == 0 || d > 4 {
		return false
	}
	for _, rf := range *refs {
		switch x := rf.(type) {
		case *ssa.BinOp:
			if x.Op != token.EQL && x.Op != token.NEQ {
				return false
			}
			other := x.Y
			if x.Y == v {
				other = x.X
			}
			if !isSlotFieldLoad(other, "keySize") {
				return false
			}
		case *ssa.MakeClosure:
			fn, ok := x.Fn.(*ssa.Function)
			if !ok {
				return false
			}
			for i, b := range x.Bindings {
				if b == v && i < len(fn.FreeVars) {
					if !onlyComparedWithKeySize(fn.FreeVars[i], d+1) {
						return false
					}
				}
			}
		case *ssa.Store:
			// stored into a captured cell: all loads of the cell must satisfy the same
			if x.Val != v {
				return false
			}
			cell, ok := x.Addr.(*ssa.Alloc)
			if !ok {
				return false
			}
			for _, cr := range *cell.Referrers() {
				switch y := cr.(type) {
				case *ssa.Store:
				case *ssa.UnOp:
					if !onlyComparedWithKeySize(y, d+1) {
						return false
					}
				case *ssa.MakeClosure:
					fn, ok := y.Fn.(*ssa.Function)
					if !ok {
						return false
					}
					for i, b := range y.Bindings {
						if b == ssa.Value(cell) && i < len(fn.FreeVars) {
							for _, fr := range *fn.FreeVars[i].Referrers() {
								ld, ok := fr.(*ssa.UnOp)
								if !ok || !onlyComparedWithKeySize(ld, d+1) {
									return false
								}
							}
						}
					}
				default:
					return false
				}
			}
		case *ssa.DebugRef:
		default:
			return false
		}
	}
	return true
}
