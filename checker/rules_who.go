package main

import (
	"fmt"
	"go/constant"
	"go/token"
	"go/types"
	"strings"

	"golang.org/x/tools/go/ssa"
)

// Who-may-call / who-may-write rules: structural invariants of the shape "only X does Y", decided on resolved callees
// and stores. They are what keeps code added next to the reviewed paths (a new error path, a clean-up, a feature)
// from doing, somewhere else, one of the few things the crash and locking arguments rely on being done in one place.

// ruleCloseNotInternal: nothing inside the module calls (*DB).Close. Close is the clean-shutdown path: it persists the
// metadata and removes the lock file, which tells the next Open that no recovery is needed. An Open that fails half
// way (recovery error, unreadable metadata) and "cleans up" through Close persists half-built state and discards the
// evidence of the unclean shutdown.
func ruleCloseNotInternal(r *Run, p *Program, rule string) {
	f := p.Fn("(*pogreb.DB).Close")
	if !r.anchor(rule, "(*pogreb.DB).Close", f != nil) {
		return
	}
	r.fn(funcKey(f))
	cs := staticCallersOf(p, f)
	for _, c := range cs {
		r.bad(rule, funcKey(c)+"->(*pogreb.DB).Close", p.Pos(c.Pos()), funcKey(c)+" calls DB.Close: Close writes db.pmt, the segment metas and index.pmt from whatever state the handle is in and then removes the lock file; called from a failing Open (or any internal path) it persists half-built state and the next Open skips recovery")
	}
	if len(cs) == 0 {
		r.ok(rule, "(*pogreb.DB).Close:callers", p.Pos(f.Pos()), "no function of the module calls DB.Close (only the user does)", true)
	}
	// the same for LockFile.Unlock: only Close releases the lock (checked by unlock-owner); here: Unlock is not reachable from Open
	if o := p.Fn("pogreb.Open"); r.anchor(rule, "pogreb.Open", o != nil) {
		all, _ := allNodes(p, o)
		bad := false
		for nd := range all.Reached {
			if e := fsEventOf(nd); e != nil && e.Iface == "fs.LockFile" && e.Method == "Unlock" {
				bad = true
				r.bad(rule, "pogreb.Open->LockFile.Unlock", p.Pos(instrPos(nd.In)), "Open can release (remove) the lock file: after a failed or interrupted Open the directory looks cleanly closed and the next Open does not recover it", all.PathTo(nd)...)
			}
		}
		if !bad {
			r.ok(rule, "pogreb.Open:keeps-lock", p.Pos(o.Pos()), "no path of Open releases the lock file", true)
		}
	}
}

// ruleRemoveSegmentOnlyCompaction: segment files are removed only by compaction (below DB.compact), which has copied
// every live record first and drops delete records only together with every older segment. Any other remover (a
// recovery clean-up, a "fully dead" shortcut) needs the same argument and does not have it.
func ruleRemoveSegmentOnlyCompaction(r *Run, p *Program, rule string) {
	f := p.Fn("(*pogreb.datalog).removeSegment")
	if !r.anchor(rule, "(*pogreb.datalog).removeSegment", f != nil) {
		return
	}
	r.fn(funcKey(f))
	roots := map[string]bool{"(*pogreb.DB).compact": true}
	okv := onlyUnderAny(p, f, roots, 0)
	var who []string
	for _, c := range staticCallersOf(p, f) {
		who = append(who, funcKey(c))
	}
	r.check(okv, rule, "(*pogreb.datalog).removeSegment:callers", p.Pos(f.Pos()),
		"segments are removed only below DB.compact",
		"removeSegment is reachable outside DB.compact (callers: "+strings.Join(who, ", ")+"): a segment is deleted without compaction's guarantees - live records copied first, delete records dropped only together with every older segment, the caller's list of segments kept in step - so deleted keys can come back after the next recovery, or recovery itself fails on the removed segment")
	// and every FileSystem.Remove of a segment-family name sits in removeSegment
	sites := collectNameSites(p, []string{"pogreb.Open", "(*pogreb.DB).Compact", "(*pogreb.DB).Close", "(*pogreb.DB).Put", "(*pogreb.DB).Delete", "(*pogreb.DB).Sync"})
	n := 0
	for _, s := range sites {
		if s.Op != "Remove" {
			continue
		}
		base, _ := segFamily(s.Family)
		if base != "SEGNAME" && base != "SEGCANON" {
			continue
		}
		n++
		r.check(ctxHasFn(s.Ctx, "(*pogreb.datalog).removeSegment"), rule, s.Fn+":removes-segment-file", p.Pos(s.Pos),
			"segment files are unlinked only inside removeSegment", "a segment file is unlinked outside removeSegment ("+s.Fn+")")
	}
	r.universe(rule+":segment-removes", n, 2)
}

// ruleAddressingWriters: the linear-hashing state (level, numBuckets, splitBucketIdx) moves only in split - forward,
// one bucket at a time - and is restored from metadata at Open. Scans (Items) and the chain-walk rules rely on keys
// only ever moving to a higher bucket; anything that shrinks or resets the table needs every dependent structure
// (free list, file sizes, running iterators) handled too.
func ruleAddressingWriters(r *Run, p *Program, rule string) {
	n := 0
	for _, fld := range []string{"pogreb.index.level", "pogreb.index.numBuckets", "pogreb.index.splitBucketIdx"} {
		for _, st := range storesToField(p, fld) {
			f := st.Parent()
			k := funcKey(f)
			n++
			r.fn(k)
			okv := onlyUnder(p, f, "(*pogreb.index).split", 0) || strings.HasSuffix(k, ".readMeta") || k == "pogreb.openIndex"
			r.check(okv, rule, k+":store("+fld+")", p.Pos(st.Pos()),
				"the addressing state changes only in index.split (and is restored at Open)",
				fld+" is written in "+k+", outside index.split: the table shrinks or is reset while overflow buckets, the free list, the file sizes and running scans still assume the old layout (keys move backwards past a scan's position, freed bucket offsets point beyond a truncated file)")
		}
	}
	r.universe(rule, n, 4)
}

// ruleSyncMode: sync-after-every-write mode is "BackgroundSyncInterval == -1" as the caller passed it: nothing
// rewrites the option, and DB.syncWrites is exactly that comparison.
func ruleSyncMode(r *Run, p *Program, rule string) {
	bad := false
	for _, st := range storesToField(p, "pogreb.Options.BackgroundSyncInterval") {
		bad = true
		r.bad(rule, funcKey(st.Parent())+":store(Options.BackgroundSyncInterval)", p.Pos(st.Pos()), "the caller's BackgroundSyncInterval is rewritten ("+instrString(st)+"): the sentinel -1 (sync after every write) can be turned into a background interval, Put and Delete then return before their record is flushed")
	}
	if !bad {
		r.ok(rule, "Options.BackgroundSyncInterval:untouched", "", "no code of the module assigns Options.BackgroundSyncInterval", true)
	}
	sts := storesToField(p, "pogreb.DB.syncWrites")
	r.universe(rule, len(sts), 1)
	for _, st := range sts {
		okv := false
		if bo, ok := strip(st.Val).(*ssa.BinOp); ok && bo.Op == token.EQL && isFieldLoad(bo.X, "pogreb.Options.BackgroundSyncInterval") {
			if k, isk := constInt(bo.Y); isk && k == -1 {
				okv = true
			}
		}
		r.check(okv, rule, funcKey(st.Parent())+":store(DB.syncWrites)", p.Pos(st.Pos()), "DB.syncWrites = (opts.BackgroundSyncInterval == -1)", "DB.syncWrites is not exactly 'BackgroundSyncInterval == -1'")
	}
}

// ruleLoggerNonNil: the package logger is dereferenced on error and recovery paths without a nil test; it must never
// be nil. Every assignment stores a freshly created logger or a value tested against nil.
func ruleLoggerNonNil(r *Run, p *Program, rule string) {
	var g *ssa.Global
	for _, m := range p.MainS.Members {
		if gl, ok := m.(*ssa.Global); ok && gl.Name() == "logger" {
			g = gl
		}
	}
	if !r.anchor(rule, "package variable pogreb.logger", g != nil) {
		return
	}
	n := 0
	for _, f := range p.ModuleFuncs("") {
		instrsOf(f, func(in ssa.Instruction) {
			st, ok := in.(*ssa.Store)
			if !ok || st.Addr != ssa.Value(g) {
				return
			}
			n++
			v := strip(st.Val)
			okv := false
			if c, isCall := v.(*ssa.Call); isCall && calleeKey(&c.Call) == "" && c.Call.StaticCallee() != nil && c.Call.StaticCallee().String() == "log.New" {
				okv = true
			}
			if c, isCall := v.(*ssa.Call); isCall && c.Call.StaticCallee() != nil && c.Call.StaticCallee().String() == "log.New" {
				okv = true
			}
			if !okv {
				okv = controlledBy(f, st, func(c *Cond) bool {
					eq, ok := c.holdsEq()
					return ok && !eq && ((strip(c.X) == v && isNilConst(c.Y)) || (strip(c.Y) == v && isNilConst(c.X)))
				})
			}
			r.check(okv, rule, funcKey(f)+":store(logger)", p.Pos(st.Pos()), "the package logger is only ever set to a non-nil *log.Logger", "the package logger can be set to nil: the unguarded logger.Printf calls on the recovery and error paths then panic (a recovering Open that meets a damaged tail crashes instead of truncating it)")
		})
	}
	r.universe(rule, n, 2)
}

// ruleSegmentIDScan: a new segment takes the lowest free slot of datalog.segments: the search starts at slot 0.
// (A search that resumes from a cursor hands out ever higher ids while compaction frees low ones; after 32767
// rollovers in one session Put fails although only a few segments exist.)
func ruleSegmentIDScan(r *Run, p *Program, rule string) {
	n := 0
	for _, st := range storesToField(p, "pogreb.datalog.maxSequenceID") {
		bo, ok := st.Val.(*ssa.BinOp)
		if !ok || bo.Op != token.ADD || !isFieldLoad(bo.X, "pogreb.datalog.maxSequenceID") {
			continue
		}
		f := st.Parent()
		// the loop whose exit hands out the id: its index phi starts at 0 (range: -1, incremented before use)
		var phis []*ssa.Phi
		for _, b := range f.Blocks {
			for _, in := range b.Instrs {
				ph, ok := in.(*ssa.Phi)
				if !ok {
					break
				}
				if bt, ok := ph.Type().Underlying().(*types.Basic); ok && bt.Info()&types.IsInteger != 0 && inCycle(ph.Block()) {
					phis = append(phis, ph)
				}
			}
		}
		if len(phis) == 0 {
			continue
		}
		n++
		okv := false
		desc := ""
		for _, ph := range phis {
			for i, e := range ph.Edges {
				if blockReaches(ph.Block(), ph.Block().Preds[i]) {
					continue // back edge
				}
				if c, isc := e.(*ssa.Const); isc && c.Value != nil {
					if v, exact := constant.Int64Val(c.Value); exact && (v == 0 || v == -1) {
						okv = true
					} else {
						desc = c.Value.String()
					}
				} else {
					desc = valString(e)
				}
			}
		}
		r.check(okv, rule, "nextWritableSegmentID:scan-from-zero", p.Pos(f.Pos()),
			"the search for a free segment slot starts at slot 0 (the lowest free id is reused)",
			fmt.Sprintf("the search for a free segment slot in %s starts at %s, not at slot 0: ids freed by compaction below the starting point are never handed out again, the ids in use creep upwards with history and Put eventually fails with 'number of segments exceeds' although few segments exist", funcKey(f), desc))
	}
	r.universe(rule, n, 1)
}

// ruleSubPaths: the directory wrapper hands every name to the wrapped file system through filepath.Join(root, name),
// which also normalises it. The in-memory file system keys files by the verbatim name: an un-normalised spelling
// ("./db" for "db") names a different, empty directory there while the OS resolves both to the same one.
func ruleSubPaths(r *Run, p *Program, rule string) {
	n := 0
	for _, f := range p.ModuleFuncs("") {
		if f.Pkg != p.FSS || f.Signature.Recv() == nil || typeName(derefType(f.Signature.Recv().Type())) != "fs.subFS" {
			continue
		}
		instrsOf(f, func(in ssa.Instruction) {
			c, ok := in.(*ssa.Call)
			if !ok || !c.Call.IsInvoke() || typeName(c.Call.Value.Type()) != "fs.FileSystem" {
				return
			}
			for _, a := range c.Call.Args {
				if b, ok := a.Type().Underlying().(*types.Basic); !ok || b.Kind() != types.String {
					continue
				}
				n++
				joined := normalisedPath(a, 0)
				r.check(joined, rule, funcKey(f)+"->FileSystem."+c.Call.Method.Name()+":path", p.Pos(c.Pos()),
					"paths handed to the wrapped file system come from filepath.Join (normalised)",
					"the directory wrapper hands a path to the wrapped file system that is not the result of filepath.Join/Clean: the in-memory file system keys files by the verbatim string, so another spelling of the same directory opens an empty database there while the OS file systems resolve both spellings to the same files")
			}
		})
	}
	r.universe(rule, n, 6)
}

// ruleBackupClosesFiles: every file Backup opens is closed before the next one is opened and before Backup returns
// nil. (A branch that skips a segment after its source was opened leaks one descriptor - and one mapping on the
// mapped file system - per skipped segment per backup.)
func ruleBackupClosesFiles(r *Run, p *Program, rule string) {
	f := p.Fn("(*pogreb.DB).Backup")
	if !r.anchor(rule, "(*pogreb.DB).Backup", f != nil) {
		return
	}
	n := 0
	for _, g := range deepFuncs(p, f) {
		if g.Pkg != p.MainS {
			continue
		}
		var opens []*ssa.Call
		instrsOf(g, func(in ssa.Instruction) {
			if c, ok := in.(*ssa.Call); ok && isInvoke(&c.Call, "fs.FileSystem", "OpenFile") {
				opens = append(opens, c)
			}
		})
		for _, o := range opens {
			n++
			r.fn(funcKey(g))
			isHandle := func(v ssa.Value) bool {
				for _, s := range sources(v) {
					if c, idx := callResult(s); c == o && idx == 0 {
						return true
					}
				}
				return false
			}
			w := &Walk{Fn: g,
				Stop: func(in ssa.Instruction) bool {
					c, ok := in.(*ssa.Call)
					return ok && c.Call.IsInvoke() && c.Call.Method.Name() == "Close" && isHandle(c.Call.Value)
				},
				SkipEdge: func(b *ssa.BasicBlock, k int) bool {
					cd := edgeCond(b, k)
					if cd == nil {
						return false
					}
					e := errNonNilEdge(cd)
					return e != nil && valueOfCall(e, o) // the open itself failed: there is no handle
				}}
			w.From(o)
			leak := ""
			if w.Visited[o] {
				leak = "the next file is opened"
			}
			for _, ret := range returnsOf(g) {
				if w.succ(g, ret) {
					leak = "the function returns without error"
				}
			}
			// the handle may be handed to the caller (openFile-style helpers): then the caller is responsible
			escapes := false
			for _, ret := range returnsOf(g) {
				for i := range ret.Results {
					if isHandle(retOperand(ret, i)) {
						escapes = true
					}
				}
			}
			if escapes {
				r.ok(rule, funcKey(g)+":OpenFile@"+p.Pos(o.Pos()), p.Pos(o.Pos()), "the handle is returned to the caller", false)
				continue
			}
			r.check(leak == "", rule, funcKey(g)+":closes-opened-file", p.Pos(o.Pos()),
				"a file opened during Backup is closed on every path before the next one is opened and before a nil return",
				"a file opened during Backup is still open when "+leak+": every repeated backup leaks descriptors (and mappings on the memory-mapped file system), which survive Close")
		}
	}
	r.universe(rule, n, 2)
}

// ruleFirstBucket: the main index file gets its first (empty) bucket exactly when the file is new - decided by the
// file being empty, not by the number of keys: an existing index with zero keys (never written, or emptied by
// deletes) must not grow by a bucket on every Open, or the file length and the persisted bucket count drift apart
// and the next split puts its bucket where lookups do not look.
func ruleFirstBucket(r *Run, p *Program, rule string) {
	f := p.Fn("pogreb.openIndex")
	if !r.anchor(rule, "pogreb.openIndex", f != nil) {
		return
	}
	r.fn(funcKey(f))
	exts := findWorkDeep(p, f, func(in ssa.Instruction) bool {
		c, ok := in.(*ssa.Call)
		return ok && calleeKey(&c.Call) == "(*pogreb.file).extend"
	})
	if !r.anchor(rule, "file.extend below openIndex (the first bucket)", len(exts) > 0) {
		return
	}
	for _, nd := range exts {
		okv := controlledDeep(nd, func(c *Cond) bool {
			if c.Op == token.ILLEGAL && c.Pos && c.V != nil {
				if call, ok := strip(c.V).(*ssa.Call); ok && calleeKey(&call.Call) == "(*pogreb.file).empty" {
					return true
				}
			}
			if eq, ok := c.holdsEq(); ok && eq {
				for _, pr := range [][2]ssa.Value{{c.X, c.Y}, {c.Y, c.X}} {
					if isFieldLoad(pr[0], "pogreb.file.size") {
						if k, isk := constInt(strip(pr[1])); isk && (k == 512 || k == 0) {
							return true
						}
					}
				}
			}
			return false
		})
		r.check(okv, rule, "pogreb.openIndex:first-bucket-iff-new-file", p.Pos(instrPos(nd.In)),
			"the first bucket is appended only when the main index file is empty (a new index)",
			"openIndex appends a bucket to the main index file under a condition other than 'the file is empty' (e.g. 'no keys'): an existing index with zero keys grows by a bucket on every Open while the persisted bucket count does not; the next split then appends its bucket at a different offset than lookups compute, and keys become unreachable after a clean restart")
	}
}

// ruleWorkerTickers: the background worker syncs on the ticker made from BackgroundSyncInterval and compacts on the
// ticker made from BackgroundCompactionInterval (whichever way the intervals travel to the goroutine).
func ruleWorkerTickers(r *Run, p *Program, rule string) {
	n := 0
	for _, f := range p.ModuleFuncs("") {
		if f.Pkg != p.MainS {
			continue
		}
		instrsOf(f, func(in ssa.Instruction) {
			g, ok := in.(*ssa.Go)
			if !ok {
				return
			}
			body, mc, mcCtx := resolveFuncValue(&Ctx{Fn: f}, g.Call.Value, 0)
			if body == nil {
				body = g.Call.StaticCallee()
			}
			if body == nil || body.Blocks == nil {
				return
			}
			root := &Ctx{Fn: body, Closure: mc, ClosureCtx: mcCtx}
			if mc != nil {
				// free variables of the goroutine body resolve in the spawning function
				root.ClosureCtx = &Ctx{Fn: f}
			}
			all, _ := allNodesFrom(p, root)
			var sel *Node
			for nd := range all.Reached {
				if _, ok := nd.In.(*ssa.Select); ok {
					nd := nd
					sel = &nd
				}
			}
			if sel == nil {
				return
			}
			n++
			s := sel.In.(*ssa.Select)
			// which interval feeds each channel: the duration handed to the ticker constructor, followed through
			// parameters (to every caller's argument) and captured variables to a field of Options
			var optField func(ctx *Ctx, v ssa.Value, d int) string
			optField = func(ctx *Ctx, v ssa.Value, d int) string {
				if d > 6 {
					return "?"
				}
				ap := accessPath(ctx, v)
				for _, name := range []string{"BackgroundSyncInterval", "BackgroundCompactionInterval"} {
					if strings.HasSuffix(ap.Chain, "."+name) {
						return name
					}
				}
				root := ap.Root
				if a, ok := root.(*ssa.Alloc); ok {
					if st := allocStores(a); len(st) == 1 {
						root = strip(st[0])
					}
				}
				if u, ok := root.(*ssa.UnOp); ok {
					if a, ok := u.X.(*ssa.Alloc); ok {
						if st := allocStores(a); len(st) == 1 {
							root = strip(st[0])
						}
					}
				}
				if pa, ok := root.(*ssa.Parameter); ok && ap.Chain == "" {
					res := "?"
					for _, arg := range callSiteArgs(p, pa.Parent(), paramIndex(pa)) {
						af := arg.(interface{ Parent() *ssa.Function }).Parent()
						r1 := optField(&Ctx{Fn: af}, arg, d+1)
						if res == "?" {
							res = r1
						} else if res != r1 {
							return "?"
						}
					}
					return res
				}
				return "?"
			}
			intervalOf := func(ch ssa.Value) string {
				for _, src := range sources(ch) {
					c, idx := callResult(src)
					if c == nil || idx != 0 || len(c.Call.Args) == 0 {
						continue
					}
					if n := optField(sel.Ctx, c.Call.Args[0], 0); n != "?" {
						return n
					}
				}
				return "?"
			}
			for i, st := range s.States {
				iv := intervalOf(st.Chan)
				if iv == "?" {
					continue
				}
				// what the case does: walk from the edge "index == i"
				w := &IPWalk{P: p, SkipEdge: func(ctx *Ctx, b *ssa.BasicBlock, k int) bool {
					c := edgeCond(b, k)
					if c == nil {
						return false
					}
					eq, ok := c.holdsEq()
					if !ok {
						return false
					}
					ci, okc := constInt(c.Y)
					ex, okx := strip(c.X).(*ssa.Extract)
					if !okc || !okx || ex.Tuple != ssa.Value(s) || ex.Index != 0 {
						return false
					}
					return (int(ci) == i) != eq
				}, Visit: func(nd Node) bool { return nd == *sel }}
				w.Run(root, []Node{*sel})
				doesSync, doesCompact := false, false
				for nd := range w.Reached {
					switch calleeOfNode(nil, nd) {
					case "(*pogreb.DB).Sync":
						doesSync = true
					case "(*pogreb.DB).Compact":
						doesCompact = true
					}
				}
				want := map[string]string{"BackgroundSyncInterval": "Sync", "BackgroundCompactionInterval": "Compact"}[iv]
				okv := (want == "Sync" && doesSync && !doesCompact) || (want == "Compact" && doesCompact && !doesSync)
				r.check(okv, rule, funcKey(f)+":ticker("+iv+")", p.Pos(s.Pos()), "the ticker made from "+iv+" drives "+want, "the background worker's ticker made from Options."+iv+" does not drive DB."+want+" (the two intervals are crossed or one action is missing): with only the compaction interval set the database never compacts and its directory grows with history; with only the sync interval set nothing is synced")
			}
		})
	}
	r.universe(rule, n, 1)
}

// normalisedPath: every origin of the string is a result of filepath.Join / filepath.Clean, directly or through a
// module helper whose every return is one.
func normalisedPath(v ssa.Value, depth int) bool {
	if depth > 3 {
		return false
	}
	srcs := sources(v)
	if len(srcs) == 0 {
		return false
	}
	for _, s := range srcs {
		cc, ok := s.(*ssa.Call)
		if !ok || cc.Call.StaticCallee() == nil {
			return false
		}
		g := cc.Call.StaticCallee()
		switch g.String() {
		case "path/filepath.Join", "path/filepath.Clean":
			continue
		}
		if !inModule(g) || g.Blocks == nil || g.Signature.Results().Len() != 1 {
			return false
		}
		rets := 0
		for _, b := range g.Blocks {
			if rt, ok := b.Instrs[len(b.Instrs)-1].(*ssa.Return); ok {
				rets++
				if !normalisedPath(rt.Results[0], depth+1) {
					return false
				}
			}
		}
		if rets == 0 {
			return false
		}
	}
	return true
}
