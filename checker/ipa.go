package main

import (
	"fmt"
	"go/token"
	"strings"

	"golang.org/x/tools/go/ssa"
)

// Ctx is one activation in the call-string-cloned interprocedural graph.
type Ctx struct {
	Parent *Ctx
	Site   ssa.Instruction // *ssa.Call or *ssa.Defer in Parent.Fn (nil for the entry)
	Fn     *ssa.Function
	Depth  int
	// for closures: the context in which the closure value was created (to resolve free variables)
	Closure    *ssa.MakeClosure
	ClosureCtx *Ctx
	kids       map[interface{}]*Ctx
}

func (c *Ctx) String() string {
	var parts []string
	for x := c; x != nil; x = x.Parent {
		parts = append(parts, funcKey(x.Fn))
	}
	for i, j := 0, len(parts)-1; i < j; i, j = i+1, j-1 {
		parts[i], parts[j] = parts[j], parts[i]
	}
	return strings.Join(parts, " > ")
}

// Node is an instruction in a context.
type Node struct {
	Ctx *Ctx
	In  ssa.Instruction
}

type ipState struct {
	ctx    *Ctx
	b      *ssa.BasicBlock
	i      int
	failed ssa.Instruction // call site (in ctx.Fn) whose callee returned through a provably failing return
	okSite ssa.Instruction // call site (in ctx.Fn) whose callee returned a constant nil error
	st     string          // client path state (e.g. the lockset)
	fx     facts           // nil-ness of error values known on this path
	ix     string          // concrete values of the loop indices of table loops (loops over a small literal slice), see tableloops.go
}

type ipKey struct {
	ctx    *Ctx
	in     ssa.Instruction
	failed ssa.Instruction
	okSite ssa.Instruction
	st     string
	fx     facts
	ix     string
}

// ipMaxStates bounds one walk (the largest walk on the reference tree needs well under a tenth of it); a walk that
// exceeds it panics, which the driver records as a fatal result of the rule: the check fails closed instead of running
// for hours on a tree whose path facts multiply.
var ipMaxStates = 1000000
var ipMaxSeen int

// IPWalk explores the interprocedural graph obtained by cloning module callees by call string.
type IPWalk struct {
	P        *Program
	MaxDepth int
	// Visit is called for every reached instruction; returning true stops the path there.
	Visit func(n Node) bool
	// SkipEdge prunes intra-procedural edges.
	SkipEdge func(ctx *Ctx, b *ssa.BasicBlock, k int) bool
	// NoInline: callee is treated as an opaque event.
	NoInline func(callee *ssa.Function) bool
	// Init is the initial path state; Transfer updates it after an instruction executed; EdgeTransfer when an edge is taken.
	Init         string
	Transfer     func(n Node, st string) string
	EdgeTransfer func(ctx *Ctx, b *ssa.BasicBlock, k int, st string) string
	// States records every path state in which a node was reached (when Transfer is set).
	States map[Node]map[string]bool
	// RootSucc: a Return of the entry function was reached on a path on which its error result is not known to be non-nil
	RootSucc map[Node]bool
	// RootSuccStates: the client path states of those paths (when Transfer is set)
	RootSuccStates map[Node]map[string]bool

	seen    map[ipKey]bool
	parent  map[ipKey]ipKey
	TooDeep bool
	// FailedIsNot: on this walk an error value known to be a failure is never equal to the named sentinel variable.
	FailedIsNot func(sentinel string) bool
	// StartFailed: the walk starts after the start nodes (call instructions) assuming each returned a non-nil error.
	StartFailed bool
	Reached     map[Node]bool
	firstKey    map[Node]ipKey
}

func (w *IPWalk) child(ctx *Ctx, site ssa.Instruction, fn *ssa.Function, mc *ssa.MakeClosure, mcCtx *Ctx) *Ctx {
	return w.childKeyed(ctx, site, site, fn, mc, mcCtx)
}

func (w *IPWalk) childKeyed(ctx *Ctx, key interface{}, site ssa.Instruction, fn *ssa.Function, mc *ssa.MakeClosure, mcCtx *Ctx) *Ctx {
	if ctx.kids == nil {
		ctx.kids = map[interface{}]*Ctx{}
	}
	if k, ok := ctx.kids[key]; ok && k.Fn == fn {
		return k
	}
	k := &Ctx{Parent: ctx, Site: site, Fn: fn, Depth: ctx.Depth + 1, Closure: mc, ClosureCtx: mcCtx}
	ctx.kids[key] = k
	return k
}

type deferKey struct {
	rd ssa.Instruction
	d  *ssa.Defer
}

// ResolveFunc finds the function a call instruction in ctx invokes, following parameters up the call string
// and closures; returns nil for interface invokes, builtins and unresolvable values.
func (w *IPWalk) ResolveFunc(ctx *Ctx, c *ssa.CallCommon) (*ssa.Function, *ssa.MakeClosure, *Ctx) {
	if c.IsInvoke() {
		if f := devirt[c.Method]; f != nil && f.Blocks != nil {
			return f, nil, nil
		}
		return nil, nil, nil
	}
	return resolveFuncValue(ctx, c.Value, 0)
}

func resolveFuncValue(ctx *Ctx, v ssa.Value, d int) (*ssa.Function, *ssa.MakeClosure, *Ctx) {
	if d > 20 || v == nil {
		return nil, nil, nil
	}
	v = strip(v)
	switch x := v.(type) {
	case *ssa.Function:
		return x, nil, nil
	case *ssa.MakeClosure:
		if f, ok := x.Fn.(*ssa.Function); ok {
			return f, x, ctx
		}
	case *ssa.Parameter:
		if ctx != nil && ctx.Parent != nil && ctx.Site != nil {
			cc := callOf(ctx.Site)
			idx := paramIndex(x)
			args := cc.Args
			if cc.IsInvoke() {
				return nil, nil, nil
			}
			if idx >= 0 && idx < len(args) {
				return resolveFuncValue(ctx.Parent, args[idx], d+1)
			}
		}
	case *ssa.FreeVar:
		if ctx != nil && ctx.Closure != nil {
			for i, fv := range ctx.Fn.FreeVars {
				if fv == x && i < len(ctx.Closure.Bindings) {
					return resolveFuncValue(ctx.ClosureCtx, ctx.Closure.Bindings[i], d+1)
				}
			}
		}
	case *ssa.UnOp:
		if x.Op == token.MUL {
			// load of a local cell with a single store (e.g. "clean := fi.Close")
			if a, ok := x.X.(*ssa.Alloc); ok {
				st := allocStores(a)
				if len(st) == 1 {
					return resolveFuncValue(ctx, st[0], d+1)
				}
			}
		}
	case *ssa.Phi:
		var f *ssa.Function
		for _, e := range x.Edges {
			g, _, _ := resolveFuncValue(ctx, e, d+1)
			if g == nil || (f != nil && g != f) {
				return nil, nil, nil
			}
			f = g
		}
		return f, nil, nil
	}
	return nil, nil, nil
}

func paramIndex(p *ssa.Parameter) int {
	for i, q := range p.Parent().Params {
		if q == p {
			return i
		}
	}
	return -1
}

func inModule(f *ssa.Function) bool {
	if f == nil || f.Blocks == nil {
		return false
	}
	if f.Pkg != nil {
		return strings.HasPrefix(f.Pkg.Pkg.Path(), modPath)
	}
	// a bound-method wrapper (db.writeMeta used as a value) of a module method
	if strings.HasPrefix(f.Synthetic, "bound method wrapper") && f.Object() != nil && f.Object().Pkg() != nil {
		return strings.HasPrefix(f.Object().Pkg().Path(), modPath)
	}
	return false
}

// Run explores from the entry of fn (starts == nil) or from just after the given nodes.
func (w *IPWalk) Run(entry *Ctx, starts []Node) {
	if w.MaxDepth == 0 {
		w.MaxDepth = 16
	}
	w.seen = map[ipKey]bool{}
	w.parent = map[ipKey]ipKey{}
	w.Reached = map[Node]bool{}
	w.firstKey = map[Node]ipKey{}
	w.States = map[Node]map[string]bool{}
	w.RootSucc = map[Node]bool{}
	w.RootSuccStates = map[Node]map[string]bool{}
	var work []ipState
	push := func(from ipKey, s ipState) {
		if s.i >= len(s.b.Instrs) {
			return
		}
		k := ipKey{s.ctx, s.b.Instrs[s.i], s.failed, s.okSite, s.st, s.fx, s.ix}
		if w.seen[k] {
			return
		}
		w.seen[k] = true
		w.parent[k] = from
		work = append(work, s)
	}
	if starts == nil {
		push(ipKey{}, ipState{ctx: entry, b: entry.Fn.Blocks[0], i: 0, st: w.Init})
	}
	for _, n := range starts {
		if de, ok := n.In.(deferEvent); ok {
			// continue after every RunDefers this deferred call runs at
			instrsOf(n.Ctx.Fn, func(in ssa.Instruction) {
				rd, ok := in.(*ssa.RunDefers)
				if !ok {
					return
				}
				for _, d := range deferredCalls(n.Ctx.Fn, rd) {
					if d == de.Defer {
						bb := rd.Block()
						for i, x := range bb.Instrs {
							if x == ssa.Instruction(rd) {
								push(ipKey{n.Ctx, n.In, nil, nil, "", "", ""}, ipState{ctx: n.Ctx, b: bb, i: i + 1, st: w.Init})
							}
						}
					}
				}
			})
			continue
		}
		b := n.In.Block()
		for i, in := range b.Instrs {
			if in == n.In {
				from := ipKey{n.Ctx, n.In, nil, nil, "", "", ""}
				st0 := ipState{ctx: n.Ctx, b: b, i: i}
				if w.StartFailed {
					// explore what follows when the call at the start node returned an error
					st0.failed = n.In
					st0.fx = st0.fx.withErrResult(n.In, false)
				}
				w.afterInstr(from, st0, push, true)
			}
		}
	}
	popped := 0
	defer func() {
		if popped > ipMaxSeen {
			ipMaxSeen = popped
		}
	}()
	for len(work) > 0 {
		popped++
		if popped > ipMaxStates {
			panic(fmt.Sprintf("analysis budget exceeded: more than %d path states in one interprocedural walk from %s (the check fails closed)", ipMaxStates, funcKey(entry.Fn)))
		}
		s := work[len(work)-1]
		work = work[:len(work)-1]
		in := s.b.Instrs[s.i]
		key := ipKey{s.ctx, in, s.failed, s.okSite, s.st, s.fx, s.ix}
		n := Node{s.ctx, in}
		if !w.Reached[n] {
			w.Reached[n] = true
			w.firstKey[n] = key
		}
		if w.Transfer != nil {
			m := w.States[n]
			if m == nil {
				m = map[string]bool{}
				w.States[n] = m
			}
			m[s.st] = true
		}
		if ret, ok := in.(*ssa.Return); ok && s.ctx.Parent == nil {
			fail := false
			if idx := errResultIndex(s.ctx.Fn); idx >= 0 && idx < len(ret.Results) {
				v := retOperand(ret, idx)
				if kn, isNil := s.fx.known(v); kn && !isNil {
					fail = true
				}
				if s.failed != nil && valueOfCall(v, s.failed) {
					fail = true
				}
			}
			if !fail {
				w.RootSucc[n] = true
				if w.Transfer != nil {
					if w.RootSuccStates[n] == nil {
						w.RootSuccStates[n] = map[string]bool{}
					}
					w.RootSuccStates[n][s.st] = true
				}
			}
		}
		if w.Visit != nil && w.Visit(n) {
			continue
		}
		if w.Transfer != nil {
			s.st = w.Transfer(n, s.st)
		}
		w.afterInstr(key, s, push, false)
	}
}

// afterInstr pushes the successors of instruction s (entering callees, returning to callers).
func (w *IPWalk) afterInstr(key ipKey, s ipState, push func(ipKey, ipState), skipCallEntry bool) {
	in := s.b.Instrs[s.i]
	switch x := in.(type) {
	case *ssa.Call:
		if !skipCallEntry {
			if w.enter(key, s, x, &x.Call, push) {
				return
			}
		}
	case *ssa.RunDefers:
		// run the deferred calls registered in this function (reverse order); module callees are entered
		// one after another by chaining: we approximate by treating each deferred call as executed here.
		defers := deferredCalls(s.ctx.Fn, x)
		if len(defers) > 0 && !skipCallEntry {
			// enter the first (last registered) deferred call; continuation handled in ret via defer chain
			entered, st := w.enterDeferred(key, s, defers, 0, push)
			if entered {
				return
			}
			s.st = st
		}
	case *ssa.Return:
		w.ret(key, s, x, push)
		return
	case *ssa.If:
		for k, succ := range s.b.Succs {
			if w.SkipEdge != nil && w.SkipEdge(s.ctx, s.b, k) {
				continue
			}
			if s.failed != nil {
				if c := edgeCond(s.b, k); c != nil {
					if e := errNilEdge(c); e != nil && valueOfCall(e, s.failed) {
						continue // the callee failed: the "err == nil" edge is infeasible
					}
				}
			}
			if s.okSite != nil {
				if c := edgeCond(s.b, k); c != nil {
					if e := errNonNilEdge(c); e != nil && valueOfCall(e, s.okSite) {
						continue // the callee returned nil: the "err != nil" edge is infeasible
					}
				}
			}
			if !s.fx.feasible(s.b, k) {
				continue
			}
			if s.ix != "" && !tableFeasible(s.ctx, s.ix, s.b, k) {
				continue
			}
			if w.FailedIsNot != nil {
				// an error known to be a failure on this path is compared with a sentinel the client rules out
				if c := edgeCond(s.b, k); c != nil && c.X != nil && c.Y != nil {
					if eq, ok := c.holdsEq(); ok && eq {
						skip := false
						for _, pr := range [][2]ssa.Value{{c.X, c.Y}, {c.Y, c.X}} {
							gl := globalLoad(pr[1])
							if gl == "" || !isErrorType(pr[0].Type()) {
								continue
							}
							failedVal := s.failed != nil && valueOfCall(pr[0], s.failed)
							if kn, isNil := s.fx.known(pr[0]); kn && !isNil {
								failedVal = true
							}
							if failedVal && w.FailedIsNot(gl) {
								skip = true
							}
						}
						if skip {
							continue
						}
					}
				}
			}
			st := s.st
			if w.EdgeTransfer != nil {
				st = w.EdgeTransfer(s.ctx, s.b, k, st)
			}
			push(key, ipState{ctx: s.ctx, b: succ, i: 0, failed: s.failed, okSite: s.okSite, st: st, fx: s.fx.afterEdge(s.b, k), ix: tableEdge(s.ctx, s.ix, s.b, k)})
		}
		return
	case *ssa.Jump:
		push(key, ipState{ctx: s.ctx, b: s.b.Succs[0], i: 0, failed: s.failed, okSite: s.okSite, st: s.st, fx: s.fx.afterEdge(s.b, 0), ix: tableEdge(s.ctx, s.ix, s.b, 0)})
		return
	case *ssa.Panic:
		return
	}
	nfx := s.fx.afterInstr(s.b.Instrs[s.i])
	if skipCallEntry && w.StartFailed {
		nfx = s.fx // the start call's assumed failure is a fact about the value it just produced
	}
	push(key, ipState{ctx: s.ctx, b: s.b, i: s.i + 1, failed: s.failed, okSite: s.okSite, st: s.st, fx: nfx, ix: s.ix})
}

// valueOfCall reports whether v is (an extract of) the result of call instruction site.
func valueOfCall(v ssa.Value, site ssa.Instruction) bool {
	c, _ := callResult(v)
	return c != nil && ssa.Instruction(c) == site
}

func (w *IPWalk) enter(key ipKey, s ipState, site ssa.Instruction, cc *ssa.CallCommon, push func(ipKey, ipState)) bool {
	f, mc, mcCtx := w.ResolveFunc(s.ctx, cc)
	if f == nil && !cc.IsInvoke() {
		f, mc, mcCtx = tableCallee(s.ctx, s.ix, cc.Value)
	}
	if !inModule(f) || (w.NoInline != nil && w.NoInline(f)) {
		return false
	}
	if s.ctx.Depth+1 > w.MaxDepth {
		w.TooDeep = true
		return false
	}
	occ := 0
	for x := s.ctx; x != nil; x = x.Parent {
		if x.Fn == f {
			occ++
		}
	}
	if occ >= 2 {
		return false // recursion (a small generic helper such as a step runner may legitimately be active twice)
	}
	k := w.child(s.ctx, site, f, mc, mcCtx)
	push(key, ipState{ctx: k, b: f.Blocks[0], i: 0, st: s.st, fx: s.fx, ix: s.ix})
	return true
}

type deferFrame struct {
	defers []*ssa.Defer
	idx    int
	at     ipState
}

var deferFrames = map[*Ctx]*deferFrame{}

func (w *IPWalk) enterDeferred(key ipKey, s ipState, defers []*ssa.Defer, idx int, push func(ipKey, ipState)) (bool, string) {
	for ; idx < len(defers); idx++ {
		d := defers[idx]
		f, mc, mcCtx := w.ResolveFunc(s.ctx, &d.Call)
		if !inModule(f) || (w.NoInline != nil && w.NoInline(f)) || s.ctx.Depth+1 > w.MaxDepth {
			// opaque deferred call: report it as an event node
			n := Node{s.ctx, deferEvent{d}}
			if !w.Reached[n] {
				w.Reached[n] = true
				w.firstKey[n] = key
			}
			if w.Transfer != nil {
				m := w.States[n]
				if m == nil {
					m = map[string]bool{}
					w.States[n] = m
				}
				m[s.st] = true
			}
			if w.Visit != nil {
				w.Visit(n)
			}
			if w.Transfer != nil {
				s.st = w.Transfer(n, s.st)
			}
			continue
		}
		k := w.childKeyed(s.ctx, deferKey{s.b.Instrs[s.i], d}, d, f, mc, mcCtx)
		deferFrames[k] = &deferFrame{defers: defers, idx: idx, at: s}
		push(key, ipState{ctx: k, b: f.Blocks[0], i: 0, st: s.st, fx: s.fx, ix: s.ix})
		return true, s.st
	}
	return false, s.st
}

// deferEvent wraps a Defer instruction executed at RunDefers time (so rules can tell registration from execution).
type deferEvent struct{ *ssa.Defer }

// deferredCalls returns the Defer instructions of fn that can reach rd, last registered first.
func deferredCalls(fn *ssa.Function, rd *ssa.RunDefers) []*ssa.Defer {
	var all []*ssa.Defer
	instrsOf(fn, func(in ssa.Instruction) {
		if d, ok := in.(*ssa.Defer); ok {
			all = append(all, d)
		}
	})
	var out []*ssa.Defer
	for i := len(all) - 1; i >= 0; i-- {
		w := &Walk{Fn: fn}
		w.From(all[i])
		if w.Visited[rd] {
			out = append(out, all[i])
		}
	}
	return out
}

func (w *IPWalk) ret(key ipKey, s ipState, r *ssa.Return, push func(ipKey, ipState)) {
	ctx := s.ctx
	if ctx.Parent == nil {
		return
	}
	// failure return: provably non-nil error, or returning the result of a failed callee
	failedRet := isFailureReturn(ctx.Fn, r)
	if !failedRet && s.failed != nil {
		if idx := errResultIndex(ctx.Fn); idx >= 0 && idx < len(r.Results) && valueOfCall(retOperand(r, idx), s.failed) {
			failedRet = true
		}
	}
	if idx := errResultIndex(ctx.Fn); !failedRet && idx >= 0 && idx < len(r.Results) {
		if kn, isNil := s.fx.known(retOperand(r, idx)); kn && !isNil {
			failedRet = true
		}
	}
	okRet := !failedRet && isNilReturn(ctx.Fn, r)
	if idx := errResultIndex(ctx.Fn); !failedRet && !okRet && idx >= 0 && idx < len(r.Results) {
		if kn, isNil := s.fx.known(retOperand(r, idx)); kn && isNil {
			okRet = true
		}
	}
	if !failedRet && !okRet && s.okSite != nil {
		if idx := errResultIndex(ctx.Fn); idx >= 0 && idx < len(r.Results) && valueOfCall(retOperand(r, idx), s.okSite) {
			okRet = true
		}
	}
	// boolean results: their truth in the caller, given what is known about the error result
	errIdx := errResultIndex(ctx.Fn)
	dependsOnErr := false
	boolResults := func(errNil *bool) map[int]bool {
		m := map[int]bool{}
		for i := range r.Results {
			if !isBoolType(r.Results[i].Type()) {
				continue
			}
			o := strip(retOperand(r, i))
			if kn, t := s.fx.known(o); kn {
				m[i] = t
				continue
			}
			bo, ok := o.(*ssa.BinOp)
			if !ok || (bo.Op != token.EQL && bo.Op != token.NEQ) || errIdx < 0 || errIdx >= len(r.Results) {
				continue
			}
			ev := strip(retOperand(r, errIdx))
			var other ssa.Value
			switch {
			case isNilConst(bo.Y):
				other = strip(bo.X)
			case isNilConst(bo.X):
				other = strip(bo.Y)
			}
			if other == nil || other != ev {
				continue
			}
			dependsOnErr = true
			if errNil != nil {
				m[i] = *errNil == (bo.Op == token.EQL)
			}
		}
		return m
	}
	switch site := ctx.Site.(type) {
	case *ssa.Call:
		b := site.Block()
		for i, in := range b.Instrs {
			if in == ssa.Instruction(site) {
				mk := func(failed, ok bool) ipState {
					ns := ipState{ctx: ctx.Parent, b: b, i: i + 1, st: s.st, fx: s.fx.dropCallResults(site), ix: s.ix}
					var en *bool
					if failed {
						ns.failed = site
						ns.fx = ns.fx.withErrResult(site, false)
						f := false
						en = &f
					} else if ok {
						ns.okSite = site
						ns.fx = ns.fx.withErrResult(site, true)
						t := true
						en = &t
					}
					for idx, truth := range boolResults(en) {
						ns.fx = ns.fx.withBoolResult(site, idx, truth)
					}
					return ns
				}
				if !failedRet && !okRet {
					boolResults(nil)
					if dependsOnErr {
						// a boolean result is computed from the error result ("return err == nil, err"): explore
						// the two cases separately so that the caller sees them correlated
						push(key, mk(true, false))
						push(key, mk(false, true))
						continue
					}
				}
				push(key, mk(failedRet, okRet))
			}
		}
	case *ssa.Defer:
		fr := deferFrames[ctx]
		if fr == nil {
			return
		}
		at := fr.at
		at.st = s.st
		if entered, st := w.enterDeferred(key, at, fr.defers, fr.idx+1, push); !entered {
			push(key, ipState{ctx: at.ctx, b: at.b, i: at.i + 1, failed: at.failed, okSite: at.okSite, st: st, fx: s.fx, ix: s.ix})
		}
	}
}

// PathTo renders the chain of branch decisions and calls that led to node n.
func (w *IPWalk) PathTo(n Node) []string {
	key, ok := w.firstKey[n]
	if !ok {
		return nil
	}
	var rev []string
	seen := map[ipKey]bool{}
	cur := key
	for {
		par, ok := w.parent[cur]
		if !ok || par.in == nil || seen[cur] {
			break
		}
		seen[cur] = true
		switch x := par.in.(type) {
		case *ssa.If:
			b := x.Block()
			for k, succ := range b.Succs {
				if len(succ.Instrs) > 0 && succ.Instrs[0] == cur.in && par.ctx == cur.ctx {
					if c := edgeCond(b, k); c != nil {
						rev = append(rev, c.String(w.P))
					}
					break
				}
			}
		case *ssa.Call:
			if par.ctx != cur.ctx && cur.ctx != nil && cur.ctx.Parent == par.ctx {
				rev = append(rev, fmt.Sprintf("%s: enters %s", w.P.Pos(x.Pos()), funcKey(cur.ctx.Fn)))
			}
		case *ssa.Return:
			if par.ctx != cur.ctx {
				rev = append(rev, fmt.Sprintf("%s: %s returns (%s)", w.P.Pos(instrPos(x)), funcKey(par.ctx.Fn), instrString(x)))
			}
		}
		cur = par
	}
	out := make([]string, 0, len(rev)+1)
	for i := len(rev) - 1; i >= 0; i-- {
		out = append(out, rev[i])
	}
	out = append(out, fmt.Sprintf("%s: reaches %s [%s]", w.P.Pos(instrPos(n.In)), instrString(n.In), n.Ctx))
	if len(out) > 14 {
		out = append([]string{"... (" + fmt.Sprint(len(out)-13) + " earlier steps omitted)"}, out[len(out)-13:]...)
	}
	return out
}

// ---------- access paths ----------

// AccessPath is a root value plus a chain of field selections, resolved through the call string.
type AccessPath struct {
	Root  ssa.Value
	Ctx   *Ctx
	Chain string
}

func (a AccessPath) Key() string {
	if a.Root == nil {
		return "?" + a.Chain
	}
	return fmt.Sprintf("%p|%p|%s", a.Root, a.Ctx, a.Chain)
}

func (a AccessPath) String() string {
	if a.Root == nil {
		return "?" + a.Chain
	}
	return valString(a.Root) + a.Chain
}

// accessPath computes the access path of v in ctx: loads of field addresses are folded into the chain,
// parameters are substituted by the caller's argument.
func accessPath(ctx *Ctx, v ssa.Value) AccessPath {
	chain := ""
	for d := 0; d < 60; d++ {
		v = strip(v)
		switch x := v.(type) {
		case *ssa.UnOp:
			if x.Op == token.MUL {
				if fa, ok := x.X.(*ssa.FieldAddr); ok {
					if fieldShort(fa) != "" {
						chain = "." + fieldShort(fa) + chain
					}
					v = fa.X
					continue
				}
				if a, ok := x.X.(*ssa.Alloc); ok {
					st := allocStores(a)
					if len(st) == 1 {
						v = st[0]
						continue
					}
				}
				if fv, ok := x.X.(*ssa.FreeVar); ok && ctx != nil && ctx.Closure != nil {
					// captured by reference: the binding is the address of the captured variable
					for i, f := range ctx.Fn.FreeVars {
						if f == fv && i < len(ctx.Closure.Bindings) {
							b := ctx.Closure.Bindings[i]
							if a, ok := b.(*ssa.Alloc); ok {
								st := allocStores(a)
								if len(st) == 1 {
									v = st[0]
									ctx = ctx.ClosureCtx
									goto next
								}
							}
							return AccessPath{Root: b, Ctx: ctx.ClosureCtx, Chain: chain}
						}
					}
				}
			}
			return AccessPath{Root: v, Ctx: ctx, Chain: chain}
		case *ssa.Field:
			st, _ := x.X.Type().Underlying().(interface{ NumFields() int })
			_ = st
			if fieldShort(x) != "" {
				chain = "." + fieldShort(x) + chain
			}
			v = x.X
			continue
		case *ssa.FieldAddr:
			if fieldShort(x) != "" {
				chain = "." + fieldShort(x) + chain
			}
			v = x.X
			continue
		case *ssa.Parameter:
			if ctx != nil && ctx.Parent != nil && ctx.Site != nil {
				cc := callOf(ctx.Site)
				idx := paramIndex(x)
				if !cc.IsInvoke() && idx >= 0 && idx < len(cc.Args) {
					v = cc.Args[idx]
					ctx = ctx.Parent
					continue
				}
			}
			return AccessPath{Root: v, Ctx: ctx, Chain: chain}
		case *ssa.FreeVar:
			if ctx != nil && ctx.Closure != nil {
				for i, f := range ctx.Fn.FreeVars {
					if f == x && i < len(ctx.Closure.Bindings) {
						v = ctx.Closure.Bindings[i]
						ctx = ctx.ClosureCtx
						goto next
					}
				}
			}
			return AccessPath{Root: v, Ctx: ctx, Chain: chain}
		default:
			return AccessPath{Root: v, Ctx: ctx, Chain: chain}
		}
	next:
	}
	return AccessPath{Root: v, Ctx: ctx, Chain: chain}
}

func fieldShort(v ssa.Value) string {
	fn := fieldName(v)
	if i := strings.LastIndex(fn, "."); i >= 0 {
		return fn[i+1:]
	}
	return fn
}

// rootSuccess reports whether n is a return of the entry function that can report success on some explored path.
func (w *IPWalk) rootSuccess(n Node) bool {
	return isRootSuccessReturn(n) && w.RootSucc[n]
}
