package main

import (
	"fmt"
	"go/token"
	"go/types"
	"strings"

	"golang.org/x/tools/go/ssa"
)

// sliceSource: results of fs.File.Slice (interface call) - memory owned by the file system (mapping / in-memory buffer).
func sliceSource(v ssa.Value) bool {
	c, ok := v.(*ssa.Call)
	if !ok {
		return false
	}
	return c.Call.IsInvoke() && c.Call.Method.Name() == "Slice" && typeName(c.Call.Value.Type()) == "fs.File"
}

func exportedAPIFuncs(p *Program) []*ssa.Function {
	var out []*ssa.Function
	for _, f := range p.ModuleFuncs("") {
		if f.Pkg != p.MainS || f.Parent() != nil {
			continue
		}
		obj := f.Object()
		if obj == nil || !obj.Exported() {
			continue
		}
		if sig := f.Signature; sig.Recv() != nil {
			// exported method of an exported type
			tn := typeName(sig.Recv().Type())
			tn = strings.TrimPrefix(strings.TrimPrefix(tn, "*"), "pogreb.")
			if tn == "" || !(tn[0] >= 'A' && tn[0] <= 'Z') {
				continue
			}
		}
		out = append(out, f)
	}
	return out
}

// ruleC14NoAliasOut: memory obtained from File.Slice never reaches a result of the exported API nor a field of any struct.
func ruleC14NoAliasOut(r *Run, p *Program, rule string) {
	t := NewTaint(p, []string{"pogreb."}, sliceSource)
	nsrc := 0
	for v := range t.Vals {
		if sliceSource(v) {
			nsrc++
		}
	}
	r.universe(rule+":sources", nsrc, 2)
	api := exportedAPIFuncs(p)
	nsink := 0
	for _, f := range api {
		r.fn(funcKey(f))
		for _, ret := range returnsOf(f) {
			for i := range ret.Results {
				v := retOperand(ret, i)
				if !isByteSliceish(v.Type()) || isErrorType(v.Type()) {
					continue
				}
				nsink++
				tainted := t.Vals[v] || t.Vals[ret.Results[i]]
				if tainted {
					r.bad(rule, funcKey(f)+":result", p.Pos(instrPos(ret)), funcKey(f)+" can return memory obtained from File.Slice (the read-only file mapping / the in-memory file buffer) without copying it: the caller's slice changes or faults after a later write, compaction, remap or Close", t.Trace(v)...)
				} else {
					r.ok(rule, funcKey(f)+":result", p.Pos(instrPos(ret)), "returned byte slices are not derived from File.Slice memory", true)
				}
			}
		}
	}
	r.universe(rule+":api-results", nsink, 3)
	// no long-lived struct field ever holds Slice memory
	ll := longLivedTypes(p)
	var fl []string
	for _, f := range t.FieldList() {
		if ll[fieldOwner(f)] {
			fl = append(fl, f)
		}
	}
	if len(fl) == 0 {
		r.ok(rule, "fields", "", fmt.Sprintf("no struct field of the package is ever assigned memory derived from File.Slice (%d tainted SSA values, all local)", len(t.Vals)), true)
	}
	for _, f := range fl {
		at := t.FieldAt[f]
		r.bad(rule, "field:"+f, p.Pos(instrPos(at)), "memory obtained from File.Slice is stored in "+f+" without being copied: it outlives the critical section in which the mapping is valid (queued iterator items, cached values)", t.Trace(at.(*ssa.Store).Val)...)
	}
}

// ruleC14NoRetainIn: byte slices passed in by the caller are not retained.
func ruleC14NoRetainIn(r *Run, p *Program, rule string) {
	api := exportedAPIFuncs(p)
	params := map[ssa.Value]bool{}
	for _, f := range api {
		for _, pa := range f.Params {
			if sl, ok := pa.Type().Underlying().(*types.Slice); ok {
				if b, ok := sl.Elem().Underlying().(*types.Basic); ok && (b.Kind() == types.Byte || b.Kind() == types.Uint8) {
					params[pa] = true
				}
			}
		}
	}
	r.universe(rule+":params", len(params), 5)
	t := NewTaint(p, []string{"pogreb."}, func(v ssa.Value) bool { return params[v] })
	// params are not instructions: seed them
	for pa := range params {
		t.Vals[pa] = true
	}
	t.run()
	ll := longLivedTypes(p)
	var fl []string
	for _, f := range t.FieldList() {
		if ll[fieldOwner(f)] {
			fl = append(fl, f)
		}
	}
	if len(fl) == 0 {
		r.ok(rule, "fields", "", fmt.Sprintf("no field of a long-lived struct (reachable from DB, ItemIterator or a package variable: %d types) is ever assigned a value derived from a caller's key/value/buffer slice (%d byte-slice parameters of %d exported functions)", len(ll), len(params), len(api)), true)
	}
	for _, f := range fl {
		at := t.FieldAt[f]
		r.bad(rule, "field:"+f, p.Pos(instrPos(at)), "a byte slice passed in by the caller is stored in "+f+" without being copied: the database keeps a reference the caller is free to overwrite", t.Trace(at.(*ssa.Store).Val)...)
	}
	// globals / channels / goroutines
	for g := range t.Globals {
		r.bad(rule, "global:"+g.Name(), "", "a caller's byte slice is stored in package variable "+g.Name())
	}
	// handed to code outside the module: only to functions known to read and not keep their argument
	next := 0
	for _, e := range t.Ext {
		if readOnlyExternal(e.Callee) {
			next++
			continue
		}
		r.bad(rule, funcKey(e.In.Parent())+"->"+e.Callee, p.Pos(instrPos(e.In)), "a byte slice passed in by the caller (or the address of the variable holding it) is handed to "+e.Callee+", which is not known to only read it: the database may keep a reference to memory the caller is free to overwrite as soon as the call returns", t.Trace(e.Arg)...)
	}
	r.ok(rule, "external-calls", "", fmt.Sprintf("%d calls hand a caller's slice to code outside the module, all to functions that only read it", next), true)
	// the record written to the log is a fresh buffer: encodeRecord returns a make() result
	if f := p.Fn("pogreb.encodeRecord"); r.anchor(rule, "pogreb.encodeRecord", f != nil) {
		fresh := true
		for _, ret := range returnsOf(f) {
			for _, s := range sources(ret.Results[0]) {
				if _, ok := s.(*ssa.MakeSlice); !ok {
					fresh = false
				}
			}
		}
		r.check(fresh && !t.Rets[f], rule, "pogreb.encodeRecord:fresh", p.Pos(f.Pos()), "encodeRecord returns a freshly allocated buffer (key and value are copied in)", "encodeRecord can return memory that aliases the caller's key/value")
	}
	// file system implementations must not keep p of Write/WriteAt
	tf := NewTaint(p, []string{"fs."}, func(v ssa.Value) bool { return false })
	nfs := 0
	for _, f := range p.ModuleFuncs("") {
		if f.Pkg != p.FSS {
			continue
		}
		name := f.Name()
		if name != "Write" && name != "WriteAt" {
			continue
		}
		for _, pa := range f.Params {
			if _, ok := pa.Type().Underlying().(*types.Slice); ok {
				tf.Vals[pa] = true
				nfs++
			}
		}
	}
	tf.run()
	for _, f := range tf.FieldList() {
		at := tf.FieldAt[f]
		r.bad(rule, "field:"+f, p.Pos(instrPos(at)), "a File.Write/WriteAt implementation keeps the caller's buffer in "+f+" instead of copying it")
	}
	if len(tf.FieldList()) == 0 {
		r.ok(rule, "fs-write-buffers", "", fmt.Sprintf("no fs Write/WriteAt implementation stores its buffer argument (%d parameters)", nfs), true)
	}
}

// readOnlyExternal: functions outside the module known to read a byte-slice argument without keeping it.
func readOnlyExternal(callee string) bool {
	switch {
	case strings.HasPrefix(callee, "bytes.Equal"), strings.HasPrefix(callee, "bytes.Compare"),
		strings.HasPrefix(callee, "hash/crc32."), strings.HasPrefix(callee, "encoding/binary."),
		strings.HasPrefix(callee, "(encoding/binary.littleEndian)."), strings.HasPrefix(callee, "unsafe."),
		strings.HasPrefix(callee, "bytes.HasPrefix"), strings.HasPrefix(callee, "bytes.HasSuffix"):
		return true
	}
	return false
}

// ruleC14ReturnedOwned: a byte slice handed to the caller is not also kept by the database. For every allocation
// site of a byte slice (make, or a call of a function that returns a fresh slice) whose value can reach a result of
// the exported API, the same value reaches no field of a long-lived struct, no package variable and no code outside
// the module that may keep it.
func ruleC14ReturnedOwned(r *Run, p *Program, rule string) {
	api := exportedAPIFuncs(p)
	// functions returning a fresh slice: every returned slice is a make() of that activation
	fresh := map[*ssa.Function]bool{}
	for _, f := range p.ModuleFuncs("") {
		if f.Signature.Results().Len() != 1 || f.Blocks == nil {
			continue
		}
		if _, ok := f.Signature.Results().At(0).Type().Underlying().(*types.Slice); !ok {
			continue
		}
		okf := len(returnsOf(f)) > 0
		for _, ret := range returnsOf(f) {
			for _, s := range sources(ret.Results[0]) {
				if _, ok := s.(*ssa.MakeSlice); !ok {
					okf = false
				}
			}
		}
		if okf {
			fresh[f] = true
		}
	}
	var sites []ssa.Value
	for _, f := range p.ModuleFuncs("") {
		if f.Pkg != p.MainS {
			continue
		}
		instrsOf(f, func(in ssa.Instruction) {
			switch x := in.(type) {
			case *ssa.MakeSlice:
				if !fresh[f] {
					sites = append(sites, x)
				}
			case *ssa.Call:
				if g := x.Call.StaticCallee(); g != nil && fresh[g] {
					sites = append(sites, x)
				}
			}
		})
	}
	r.universe(rule+":allocation-sites", len(sites), 4)
	ll := longLivedTypes(p)
	// reviewed exception: the iterator's queue holds the cloned item until Next pops and returns it; the popped
	// element is not read again
	except := map[string]string{
		"pogreb.item.key":           "queued clone, popped from the queue before it is returned and never read again",
		"pogreb.item.value":         "queued clone, popped from the queue before it is returned and never read again",
		"pogreb.ItemIterator.queue": "the queue of cloned items",
	}
	returned := 0
	for _, site := range sites {
		site := site
		t := NewTaint(p, []string{"pogreb."}, func(v ssa.Value) bool { return v == site })
		reaches := ""
		for _, f := range api {
			for _, ret := range returnsOf(f) {
				for i := range ret.Results {
					v := retOperand(ret, i)
					if isByteSliceish(v.Type()) && !isErrorType(v.Type()) && (t.Vals[v] || t.Vals[ret.Results[i]]) {
						reaches = funcKey(f)
					}
				}
			}
		}
		if reaches == "" {
			continue
		}
		returned++
		construct := funcKey(site.(ssa.Instruction).Parent()) + ":" + valString(site)
		bad := false
		for _, fld := range t.FieldList() {
			if !ll[fieldOwner(fld)] {
				continue
			}
			if _, ok := except[fld]; ok {
				continue
			}
			bad = true
			at := t.FieldAt[fld]
			r.bad(rule, construct+"->"+fld, p.Pos(instrPos(at)), "a byte slice that "+reaches+" returns to the caller is also stored in "+fld+": the database keeps a reference to memory that belongs to the caller and can later overwrite it in place, or hand the same memory to another caller", t.Trace(at.(*ssa.Store).Val)...)
		}
		for g := range t.Globals {
			bad = true
			r.bad(rule, construct+"->global:"+g.Name(), "", "a byte slice returned to the caller is also stored in package variable "+g.Name())
		}
		for _, e := range t.Ext {
			if readOnlyExternal(e.Callee) {
				continue
			}
			bad = true
			r.bad(rule, construct+"->"+e.Callee, p.Pos(instrPos(e.In)), "a byte slice that "+reaches+" returns to the caller is also handed to "+e.Callee+", which may keep it", t.Trace(e.Arg)...)
		}
		if !bad {
			r.ok(rule, construct, p.Pos(site.Pos()), "the slice allocated here can be returned by "+reaches+" and is kept nowhere else", true)
		}
	}
	r.universe(rule+":returned-sites", returned, 2)
}

// ruleC14CopyInsideLock: bytes of File.Slice memory are only read (copied, compared, appended from) while DB.mu is held.
func ruleC14CopyInsideLock(r *Run, p *Program, rule string) {
	t := NewTaint(p, []string{"pogreb."}, sliceSource)
	n := 0
	seen := map[string]bool{}
	for _, e := range resolveLockEntries(p) {
		f := p.Fn(e.Key)
		if f == nil {
			continue
		}
		w, _ := lockWalk(p, f, e.Init)
		for nd := range w.Reached {
			c, ok := nd.In.(*ssa.Call)
			if !ok {
				continue
			}
			var args []ssa.Value
			what := ""
			if b, ok := c.Call.Value.(*ssa.Builtin); ok && (b.Name() == "append" || b.Name() == "copy") {
				args, what = c.Call.Args, b.Name()
			} else {
				switch calleeKey(&c.Call) {
				case "pogreb.cloneBytes", "bytes.Equal", "hash/crc32.ChecksumIEEE":
					args, what = c.Call.Args, calleeKey(&c.Call)
				}
			}
			use := false
			for _, a := range args {
				if t.Vals[a] {
					use = true
				}
			}
			if !use {
				continue
			}
			n++
			held := mustHold(w, nd)
			key := funcKey(nd.Ctx.Fn) + ":" + what
			if !holdsRead(held) {
				if !seen[key] {
					seen[key] = true
					r.bad(rule, key, p.Pos(c.Pos()), fmt.Sprintf("%s reads bytes of File.Slice memory (via %s) reachable from %s without DB.mu held: Close or compaction may unmap the segment during the copy (memory fault) or the bytes may change", funcKey(nd.Ctx.Fn), what, e.Key), w.PathTo(nd)...)
				}
			} else if !seen[key+"ok"] {
				seen[key+"ok"] = true
				r.ok(rule, key, p.Pos(c.Pos()), "File.Slice memory is read with DB.mu held", true)
			}
		}
	}
	r.universe(rule, n, 6)
}

// ruleC14Fresh: every byte slice handed to the caller is a buffer allocated for that result (cloneBytes / make), or the
// caller's own buffer extended by append - never a view of a buffer the database keeps and reuses.
func ruleC14Fresh(r *Run, p *Program, rule string) {
	api := exportedAPIFuncs(p)
	// stores into []byte fields, by qualified field name
	fieldStores := map[string][]*ssa.Store{}
	for _, f := range p.ModuleFuncs("") {
		if f.Pkg != p.MainS {
			continue
		}
		instrsOf(f, func(in ssa.Instruction) {
			if st, ok := in.(*ssa.Store); ok {
				if fn := fieldName(st.Addr); fn != "" {
					if _, isSl := st.Val.Type().Underlying().(*types.Slice); isSl {
						fieldStores[fn] = append(fieldStores[fn], st)
					}
				}
			}
		})
	}
	var fresh func(v ssa.Value, apiFn *ssa.Function, seen map[ssa.Value]bool, d int) (bool, string)
	fresh = func(v ssa.Value, apiFn *ssa.Function, seen map[ssa.Value]bool, d int) (bool, string) {
		v = strip(v)
		if v == nil || d > 25 {
			return false, "too deep"
		}
		if seen[v] {
			return true, ""
		}
		seen[v] = true
		switch x := v.(type) {
		case *ssa.Const:
			return true, ""
		case *ssa.MakeSlice:
			return true, ""
		case *ssa.Call:
			if calleeKey(&x.Call) == "pogreb.cloneBytes" {
				return true, ""
			}
			if b, ok := x.Call.Value.(*ssa.Builtin); ok && b.Name() == "append" {
				// the caller's buffer extended: first argument must derive from a []byte parameter of the API function
				for _, s := range sources(x.Call.Args[0]) {
					if callerBuffer(s, apiFn) {
						return true, ""
					}
				}
				return fresh(x.Call.Args[0], apiFn, seen, d+1)
			}
			if f := x.Call.StaticCallee(); f != nil && inModule(f) {
				for _, ret := range returnsOf(f) {
					for i := range ret.Results {
						if _, isSl := ret.Results[i].Type().Underlying().(*types.Slice); isSl {
							if ok, why := fresh(retOperand(ret, i), apiFn, seen, d+1); !ok {
								return false, why
							}
						}
					}
				}
				return true, ""
			}
			// a call through a function value: every function the value can be (VTA call graph) must return fresh buffers
			if !x.Call.IsInvoke() && x.Call.StaticCallee() == nil {
				if n := p.VTA().Nodes[x.Parent()]; n != nil {
					found := false
					for _, e := range n.Out {
						if e.Site != ssa.CallInstruction(x) || e.Callee.Func == nil || !inModule(e.Callee.Func) {
							continue
						}
						found = true
						for _, ret := range returnsOf(e.Callee.Func) {
							for i := range ret.Results {
								if _, isSl := ret.Results[i].Type().Underlying().(*types.Slice); isSl {
									if ok, why := fresh(retOperand(ret, i), apiFn, seen, d+1); !ok {
										return false, why
									}
								}
							}
						}
					}
					if found {
						return true, ""
					}
				}
			}
			return false, "result of " + callString(&x.Call)
		case *ssa.Extract:
			if c, ok := x.Tuple.(*ssa.Call); ok {
				if f := c.Call.StaticCallee(); f != nil && inModule(f) {
					for _, ret := range returnsOf(f) {
						if x.Index < len(ret.Results) {
							if ok, why := fresh(retOperand(ret, x.Index), apiFn, seen, d+1); !ok {
								return false, why
							}
						}
					}
					return true, ""
				}
			}
			return false, "result of a call outside the module"
		case *ssa.Phi:
			for _, e := range x.Edges {
				if ok, why := fresh(e, apiFn, seen, d+1); !ok {
					return false, why
				}
			}
			return true, ""
		case *ssa.Slice:
			return false, "a sub-slice of " + valString(x.X)
		case *ssa.Field:
			return freshField(fieldName(x), apiFn, seen, d, fieldStores, fresh)
		case *ssa.UnOp:
			if x.Op != token.MUL {
				return false, "?"
			}
			switch a := x.X.(type) {
			case *ssa.FieldAddr:
				return freshField(fieldName(a), apiFn, seen, d, fieldStores, fresh)
			case *ssa.Alloc:
				// a local cell, possibly assigned inside closures that captured it
				okAll := true
				why := ""
				for _, sv := range cellStores(a) {
					if ok, w := fresh(sv, apiFn, seen, d+1); !ok {
						okAll, why = false, w
					}
				}
				return okAll, why
			case *ssa.IndexAddr:
				return fresh(a.X, apiFn, seen, d+1)
			}
			return false, "load of " + valString(x.X)
		case *ssa.Parameter:
			if callerBuffer(x, apiFn) {
				return true, ""
			}
			return false, "parameter " + x.Name()
		}
		return false, valString(v)
	}
	n := 0
	for _, f := range api {
		for _, ret := range returnsOf(f) {
			for i := range ret.Results {
				v := retOperand(ret, i)
				sl, ok := v.Type().Underlying().(*types.Slice)
				if !ok {
					continue
				}
				if b, ok := sl.Elem().Underlying().(*types.Basic); !ok || (b.Kind() != types.Byte && b.Kind() != types.Uint8) {
					continue
				}
				n++
				r.fn(funcKey(f))
				okv, why := fresh(v, f, map[ssa.Value]bool{}, 0)
				r.check(okv, rule, funcKey(f)+":result", p.Pos(instrPos(ret)), "the returned byte slice is a buffer allocated for this result (or the caller's buffer extended)",
					funcKey(f)+" can return a byte slice that is not a buffer allocated for this result ("+why+"): it is a view of memory the database keeps and reuses, so its contents change under the caller at a later call")
			}
		}
	}
	r.universe(rule, n, 3)
}

func freshField(fn string, apiFn *ssa.Function, seen map[ssa.Value]bool, d int, stores map[string][]*ssa.Store, fresh func(ssa.Value, *ssa.Function, map[ssa.Value]bool, int) (bool, string)) (bool, string) {
	sts := stores[fn]
	if len(sts) == 0 {
		return false, "field " + fn + " (never assigned)"
	}
	for _, st := range sts {
		if ok, why := fresh(st.Val, st.Parent(), seen, d+1); !ok {
			return false, "field " + fn + " is assigned " + why
		}
	}
	return true, ""
}

// callerBuffer: v is (derived by capture from) a []byte parameter of an exported function.
func callerBuffer(v ssa.Value, apiFn *ssa.Function) bool {
	switch x := v.(type) {
	case *ssa.Parameter:
		_, ok := x.Type().Underlying().(*types.Slice)
		return ok && x.Parent().Object() != nil && x.Parent().Object().Exported()
	case *ssa.UnOp:
		if x.Op == token.MUL {
			if fv, ok := x.X.(*ssa.FreeVar); ok {
				return callerBuffer(fv, apiFn)
			}
			if a, ok := x.X.(*ssa.Alloc); ok {
				for _, s := range allocStores(a) {
					if callerBuffer(s, apiFn) {
						return true
					}
				}
			}
		}
	case *ssa.Alloc:
		for _, s := range allocStores(x) {
			if callerBuffer(s, apiFn) {
				return true
			}
		}
	case *ssa.FreeVar:
		// captured from the enclosing exported function
		par := x.Parent().Parent()
		if par == nil {
			return false
		}
		for _, in := range collectMakeClosures(par) {
			fn, ok := in.Fn.(*ssa.Function)
			if !ok || fn != x.Parent() {
				continue
			}
			for i, fv := range fn.FreeVars {
				if fv == x && i < len(in.Bindings) {
					if callerBuffer(in.Bindings[i], apiFn) {
						return true
					}
					for _, s := range sources(in.Bindings[i]) {
						if callerBuffer(s, apiFn) {
							return true
						}
					}
				}
			}
		}
	}
	return false
}

func collectMakeClosures(f *ssa.Function) []*ssa.MakeClosure {
	var out []*ssa.MakeClosure
	instrsOf(f, func(in ssa.Instruction) {
		if mc, ok := in.(*ssa.MakeClosure); ok {
			out = append(out, mc)
		}
	})
	return out
}

// cellStores returns the values stored into a local cell, including stores made by closures that captured it.
func cellStores(a *ssa.Alloc) []ssa.Value {
	out := allocStores(a)
	if refs := a.Referrers(); refs != nil {
		for _, rf := range *refs {
			mc, ok := rf.(*ssa.MakeClosure)
			if !ok {
				continue
			}
			fn, ok := mc.Fn.(*ssa.Function)
			if !ok {
				continue
			}
			for i, b := range mc.Bindings {
				if b == ssa.Value(a) && i < len(fn.FreeVars) {
					fv := fn.FreeVars[i]
					if fr := fv.Referrers(); fr != nil {
						for _, x := range *fr {
							if st, ok := x.(*ssa.Store); ok && st.Addr == ssa.Value(fv) {
								out = append(out, st.Val)
							}
						}
					}
				}
			}
		}
	}
	return out
}

// longLivedTypes: struct types of package pogreb that can be reached from a DB, an ItemIterator or a package-level variable
// (through fields, pointers, slices, arrays, maps). Values of other struct types live only for the duration of a call.
func longLivedTypes(p *Program) map[string]bool {
	out := map[string]bool{}
	var visit func(t types.Type, d int)
	visit = func(t types.Type, d int) {
		if d > 12 {
			return
		}
		switch u := t.(type) {
		case *types.Pointer:
			visit(u.Elem(), d+1)
		case *types.Slice:
			visit(u.Elem(), d+1)
		case *types.Array:
			visit(u.Elem(), d+1)
		case *types.Map:
			visit(u.Key(), d+1)
			visit(u.Elem(), d+1)
		case *types.Named:
			if u.Obj().Pkg() == nil || u.Obj().Pkg().Path() != modPath {
				// a foreign generic container (atomic.Pointer[T], ...): what it holds
				if ta := u.TypeArgs(); ta != nil {
					for i := 0; i < ta.Len(); i++ {
						visit(ta.At(i), d+1)
					}
				}
				return
			}
			name := "pogreb." + u.Obj().Name()
			if out[name] {
				return
			}
			st, ok := u.Underlying().(*types.Struct)
			if !ok {
				return
			}
			out[name] = true
			for i := 0; i < st.NumFields(); i++ {
				visit(st.Field(i).Type(), d+1)
			}
		}
	}
	for _, root := range []string{"DB", "ItemIterator"} {
		if n := p.NamedType(p.Main, root); n != nil {
			visit(n, 0)
		}
	}
	sc := p.Main.Types.Scope()
	// every exported struct type is something the user holds on to (a batch, an iterator, a handle)
	for _, nm := range sc.Names() {
		if tn, ok := sc.Lookup(nm).(*types.TypeName); ok && tn.Exported() {
			if n, ok := tn.Type().(*types.Named); ok {
				visit(n, 0)
			}
		}
	}
	for _, nm := range sc.Names() {
		if v, ok := sc.Lookup(nm).(*types.Var); ok {
			visit(v.Type(), 0)
		}
	}
	return out
}

func fieldOwner(qualField string) string {
	if i := strings.LastIndex(qualField, "."); i >= 0 {
		return qualField[:i]
	}
	return qualField
}
