package main

import (
	"fmt"
	"sort"

	"golang.org/x/tools/go/ssa"
)

// dumpSharedStores lists, per lock entry, the stores whose address is rooted at the entry's receiver (development aid).
func dumpSharedStores(p *Program) {
	for _, e := range resolveLockEntries(p) {
		f := p.Fn(e.Key)
		if f == nil {
			continue
		}
		w, _ := lockWalk(p, f, e.Init)
		seen := map[string]bool{}
		var lines []string
		for n := range w.Reached {
			st, ok := n.In.(*ssa.Store)
			if !ok {
				continue
			}
			ap := accessPath(n.Ctx, st.Addr)
			rootp, isp := ap.Root.(*ssa.Parameter)
			if !isp || ap.Ctx == nil || ap.Ctx.Parent != nil {
				continue
			}
			held := mustHold(w, n)
			ln := fmt.Sprintf("  %s%s in %s held={%s} field=%s", rootp.Name(), ap.Chain, funcKey(n.Ctx.Fn), lockSetString(held), fieldName(st.Addr))
			if !seen[ln] {
				seen[ln] = true
				lines = append(lines, ln)
			}
		}
		sort.Strings(lines)
		fmt.Println(e.Key)
		for _, l := range lines {
			fmt.Println(l)
		}
	}
}
