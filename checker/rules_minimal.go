package main

import (
	"fmt"
	"go/constant"
	"go/token"
	"go/types"
	"sort"
	"strings"

	"golang.org/x/tools/go/ssa"
)

// Rules added after the round of minimal (at most three lines, no new identifier) seeded changes.

// ruleReadDirOrder: the result of FileSystem.ReadDir is processed entry by entry, all of it: a loop over the listing is
// left only at its bound or by failing. The order of a listing differs between the file systems (os.ReadDir sorts by name,
// the in-memory file system ranges over a map), so a loop that stops at the first entry of some kind does a different
// amount of work on each - and on the OS file systems, where segments sort first, recovery's clean-up would never
// remove a single backup file.
func ruleReadDirOrder(r *Run, p *Program, rule string) {
	n := 0
	for _, f := range p.ModuleFuncs("") {
		if f.Pkg != p.MainS {
			continue
		}
		var calls []*ssa.Call
		instrsOf(f, func(in ssa.Instruction) {
			if c, ok := in.(*ssa.Call); ok && isInvoke(&c.Call, "fs.FileSystem", "ReadDir") {
				calls = append(calls, c)
			}
		})
		for _, c := range calls {
			// the loop: a cycle containing an element access of the listing
			var body *ssa.BasicBlock
			instrsOf(f, func(in ssa.Instruction) {
				var x ssa.Value
				switch a := in.(type) {
				case *ssa.IndexAddr:
					x = a.X
				case *ssa.Index:
					x = a.X
				}
				if x == nil || body != nil || !inCycle(in.Block()) {
					return
				}
				for _, s := range sources(x) {
					if cc, idx := callResult(s); cc == c && idx == 0 {
						body = in.Block()
					}
				}
			})
			if body == nil {
				continue // the listing is not iterated here (handed on, or only measured)
			}
			n++
			r.fn(funcKey(f))
			bad := false
			for _, b := range f.Blocks {
				if b != body && !sameCycle(b, body) {
					continue
				}
				for k, succ := range b.Succs {
					if succ == body || sameCycle(succ, body) {
						continue
					}
					cd := edgeCond(b, k)
					if cd == nil || isLoopBound(cd) || edgeOnlyFails(f, b, k) {
						continue
					}
					// the verdict of a per-entry callback: it may stop the loop only by failing
					if cd.Op == token.ILLEGAL && cd.V != nil {
						if stopOK, known := visitorStopsOnlyFailing(p, f, cd); known {
							if !stopOK {
								bad = true
								r.bad(rule, funcKey(f)+":listing-loop", p.Pos(cd.If.Cond.Pos()), "a per-entry callback can stop the walk over the directory listing without an error: which entries are processed then depends on the order in which the file system lists them")
							}
							continue
						}
						continue // a boolean this rule cannot attribute: not judged
					}
					bad = true
					r.bad(rule, funcKey(f)+":listing-loop", p.Pos(cd.If.Cond.Pos()), "the loop over the directory listing is left early ("+cd.String(p)+") without an error: what is processed depends on the order in which the file system lists the directory (sorted by name on the OS file systems, random in memory) - entries behind the first one of another kind are never handled")
				}
			}
			// and the loop is not bypassed: every return that can report success lies behind it
			for _, ret := range returnsOf(f) {
				if errResultIndex(f) >= 0 && isFailureReturn(f, ret) {
					continue
				}
				behind := false
				for _, b := range f.Blocks {
					if (b == body || sameCycle(b, body)) && b.Dominates(ret.Block()) {
						behind = true
					}
				}
				if !behind {
					bad = true
					r.bad(rule, funcKey(f)+":listing-loop", p.Pos(instrPos(ret)), "the function can return success without walking the directory listing it read: the per-entry work (removing the recovery backups, moving stale files aside, summing sizes) silently does not happen")
				}
			}
			if !bad {
				r.ok(rule, funcKey(f)+":listing-loop", p.Pos(c.Pos()), "the loop over FileSystem.ReadDir's result is left only at its bound or by failing, and no success return bypasses it", true)
			}
		}
	}
	r.universe(rule, n, 1) // three hand-written loops on the reference tree; one when they share a helper
}

// visitorStopsOnlyFailing: the exit condition cd of a loop in f is a boolean result of a call of one of f's function
// parameters; every closure passed for that parameter at f's static call sites yields the stopping value only together
// with a failure. known=false when the shape is not this one.
func visitorStopsOnlyFailing(p *Program, f *ssa.Function, cd *Cond) (ok, known bool) {
	v := strip(cd.V)
	idx := 0
	var call *ssa.Call
	switch x := v.(type) {
	case *ssa.Call:
		call = x
	case *ssa.Extract:
		call, _ = x.Tuple.(*ssa.Call)
		idx = x.Index
	}
	if call == nil || call.Call.IsInvoke() {
		return false, false
	}
	par, isPar := strip(call.Call.Value).(*ssa.Parameter)
	if !isPar || par.Parent() != f {
		return false, false
	}
	pi := paramIndex(par)
	stopVal := cd.Pos // the loop is left when the result has this truth value
	found := 0
	for _, caller := range staticCallersOf(p, f) {
		var sites []*ssa.Call
		instrsOf(caller, func(in ssa.Instruction) {
			if c, ok := in.(*ssa.Call); ok && c.Call.StaticCallee() == f {
				sites = append(sites, c)
			}
		})
		for _, s := range sites {
			if pi < 0 || pi >= len(s.Call.Args) {
				return false, false
			}
			g, _, _ := resolveFuncValue(&Ctx{Fn: caller}, s.Call.Args[pi], 0)
			if g == nil || g.Blocks == nil {
				return false, false
			}
			found++
			for _, ret := range returnsOf(g) {
				if idx >= len(ret.Results) {
					return false, false
				}
				bv, isc := constBool(strip(ret.Results[idx]))
				if isc && bv != stopVal {
					continue
				}
				if !isFailureReturn(g, ret) {
					// "return err == nil, err" style: the continue flag is derived from the error
					if !isc && boolTiedToErr(g, ret, idx, stopVal) {
						continue
					}
					return false, true
				}
			}
		}
	}
	return found > 0, found > 0
}

// boolTiedToErr: result idx of ret is (err == nil) / (err != nil) of the error result, such that the stopping value is
// produced only by a non-nil error.
func boolTiedToErr(g *ssa.Function, ret *ssa.Return, idx int, stopVal bool) bool {
	ei := errResultIndex(g)
	if ei < 0 || ei >= len(ret.Results) {
		return false
	}
	bo, ok := strip(ret.Results[idx]).(*ssa.BinOp)
	if !ok || (bo.Op != token.EQL && bo.Op != token.NEQ) {
		return false
	}
	var other ssa.Value
	switch {
	case isNilConst(bo.Y):
		other = strip(bo.X)
	case isNilConst(bo.X):
		other = strip(bo.Y)
	}
	if other == nil || other != strip(ret.Results[ei]) {
		return false
	}
	// value of the flag when err != nil
	whenErr := bo.Op == token.NEQ
	return whenErr == stopVal
}

// ruleTickerPositive: time.NewTicker panics on a non-positive interval, in the goroutine that calls it - for the
// background worker that is a crash of the whole process right after Open. Every NewTicker in the module is reached
// only where its argument is known to be > 0 (BackgroundSyncInterval == -1 is a legal setting).
func ruleTickerPositive(r *Run, p *Program, rule string) {
	n := 0
	for _, f := range p.ModuleFuncs("") {
		var calls []*ssa.Call
		instrsOf(f, func(in ssa.Instruction) {
			if c, ok := in.(*ssa.Call); ok {
				if k := calleeKey(&c.Call); k == "time.NewTicker" || k == "time.Tick" {
					calls = append(calls, c)
				}
			}
		})
		for _, c := range calls {
			n++
			r.fn(funcKey(f))
			okv := positiveAt(p, f, c, c.Call.Args[0], 0)
			r.check(okv, rule, funcKey(f)+"->time.NewTicker", p.Pos(c.Pos()), "the ticker is created only behind 'interval > 0'",
				"time.NewTicker can be reached with an interval that is not known to be positive: it panics on d <= 0, and BackgroundSyncInterval == -1 (sync on every write) together with a positive BackgroundCompactionInterval starts the worker, which then crashes the process from its own goroutine")
		}
	}
	r.universe(rule, n, 1)
}

// positiveAt: instruction at (in f) is reached only where v > 0, by a guard in f or, when v is a parameter, at every
// static call site.
func positiveAt(p *Program, f *ssa.Function, at ssa.Instruction, v ssa.Value, d int) bool {
	v = strip(v)
	if k, ok := constInt(v); ok {
		return k > 0
	}
	isV := func(x ssa.Value) bool { return strip(x) == v }
	isZero := func(x ssa.Value) bool { k, ok := constInt(strip(x)); return ok && k == 0 }
	isOne := func(x ssa.Value) bool { k, ok := constInt(strip(x)); return ok && k >= 1 }
	if controlledBy(f, at, func(c *Cond) bool {
		return impliesCmp(c, isV, isZero, true) || impliesCmp(c, isV, isOne, false)
	}) {
		return true
	}
	par, isPar := v.(*ssa.Parameter)
	if !isPar || d > 3 {
		return false
	}
	pi := paramIndex(par)
	callers := staticCallersOf(p, f)
	if len(callers) == 0 || pi < 0 {
		return false
	}
	for _, caller := range callers {
		var sites []*ssa.Call
		instrsOf(caller, func(in ssa.Instruction) {
			if c, ok := in.(*ssa.Call); ok && c.Call.StaticCallee() == f {
				sites = append(sites, c)
			}
		})
		if len(sites) == 0 {
			return false // used as a value: call sites unknown
		}
		for _, s := range sites {
			if pi >= len(s.Call.Args) || !positiveAt(p, caller, s, s.Call.Args[pi], d+1) {
				return false
			}
		}
	}
	return true
}

// ruleOpenFlags: the flags openFile passes to FileSystem.OpenFile are either exactly O_RDONLY (the read-only open of a
// metadata file: it must not create, truncate or write - the in-memory file system does not enforce access modes, the OS
// does, so anything else behaves differently per file system and leaves stray files behind) or contain O_CREATE|O_RDWR.
func ruleOpenFlags(r *Run, p *Program, rule string) {
	f := p.Fn("pogreb.openFile")
	if !r.anchor(rule, "pogreb.openFile", f != nil) {
		return
	}
	r.fn(funcKey(f))
	oc := func(name string) (int64, bool) { return osConst(p, name) }
	rdonly, ok1 := oc("O_RDONLY")
	create, ok2 := oc("O_CREATE")
	rdwr, ok3 := oc("O_RDWR")
	trunc, ok4 := oc("O_TRUNC")
	if !r.anchor(rule, "os.O_* constants", ok1 && ok2 && ok3 && ok4) {
		return
	}
	n := 0
	instrsOf(f, func(in ssa.Instruction) {
		c, ok := in.(*ssa.Call)
		if !ok || !isInvoke(&c.Call, "fs.FileSystem", "OpenFile") || len(c.Call.Args) < 2 {
			return
		}
		n++
		vals, okv := intValueSet(c.Call.Args[1], 0)
		if !okv {
			r.undecided(rule, "pogreb.openFile->FileSystem.OpenFile:flags", p.Pos(c.Pos()), "cannot enumerate the flag values passed to FileSystem.OpenFile")
			return
		}
		var list []string
		hasRO, hasTrunc, bad := false, false, false
		for _, v := range vals {
			list = append(list, fmt.Sprintf("%#x", v))
			switch {
			case v == rdonly:
				hasRO = true
			case v&create != 0 && v&rdwr != 0:
				if v&trunc != 0 {
					hasTrunc = true
				}
			default:
				bad = true
			}
		}
		sort.Strings(list)
		r.check(!bad && hasRO && hasTrunc, rule, "pogreb.openFile->FileSystem.OpenFile:flags", p.Pos(c.Pos()),
			"openFile opens read-only with exactly O_RDONLY, otherwise with O_CREATE|O_RDWR (plus O_TRUNC for rewritten files)",
			"the flag values openFile can pass to FileSystem.OpenFile are {"+strings.Join(list, ", ")+"}: a read-only open must be exactly O_RDONLY and every other open O_CREATE|O_RDWR (with O_TRUNC for files that are rewritten). A read-only open that creates leaves empty metadata files behind when they are missing, and what happens next differs between the file systems (the in-memory one ignores the access mode and writes a header, the OS ones fail the write)")
	})
	r.universe(rule, n, 1)
}

// intValueSet enumerates the constants an integer expression built from constants, phis and | can take.
func intValueSet(v ssa.Value, d int) ([]int64, bool) {
	if d > 8 {
		return nil, false
	}
	v = strip(v)
	switch x := v.(type) {
	case *ssa.Const:
		k, ok := constInt(x)
		return []int64{k}, ok
	case *ssa.Phi:
		set := map[int64]bool{}
		for _, e := range x.Edges {
			vs, ok := intValueSet(e, d+1)
			if !ok {
				return nil, false
			}
			for _, k := range vs {
				set[k] = true
			}
		}
		var out []int64
		for k := range set {
			out = append(out, k)
		}
		sort.Slice(out, func(i, j int) bool { return out[i] < out[j] })
		return out, len(out) <= 16
	case *ssa.BinOp:
		if x.Op != token.OR {
			return nil, false
		}
		a, ok1 := intValueSet(x.X, d+1)
		b, ok2 := intValueSet(x.Y, d+1)
		if !ok1 || !ok2 {
			return nil, false
		}
		set := map[int64]bool{}
		for _, i := range a {
			for _, j := range b {
				set[i|j] = true
			}
		}
		var out []int64
		for k := range set {
			out = append(out, k)
		}
		sort.Slice(out, func(i, j int) bool { return out[i] < out[j] })
		return out, len(out) <= 16
	case *ssa.Convert:
		return intValueSet(x.X, d+1)
	}
	return nil, false
}

// loopCarried: the value depends on what an earlier iteration of a loop computed (a phi at a loop head whose back-edge
// operand is not a constant lies in its phi closure).
func loopCarried(v ssa.Value, seen map[ssa.Value]bool) bool {
	v = strip(v)
	if seen[v] {
		return false
	}
	seen[v] = true
	ph, ok := v.(*ssa.Phi)
	if !ok {
		return false
	}
	b := ph.Block()
	for i, pred := range b.Preds {
		if i >= len(ph.Edges) {
			break
		}
		if b.Dominates(pred) {
			if _, isc := strip(ph.Edges[i]).(*ssa.Const); !isc {
				return true
			}
		}
	}
	for _, e := range ph.Edges {
		if loopCarried(e, seen) {
			return true
		}
	}
	return false
}

// ruleArrayBounds: every access of a fixed-size array (the 31 slots of a bucket, the header fields) at a computed index
// is reached only where the index is known to be below the array's length. An off-by-one in such a loop bound does not
// show while buckets are not full; with a full bucket and no matching slot it is an index-out-of-range panic in the
// middle of a lookup, a split or a compaction.
func ruleArrayBounds(r *Run, p *Program, rule string) {
	n := 0
	for _, f := range p.ModuleFuncs("") {
		if f.Pkg != p.MainS {
			continue
		}
		type site struct {
			in  ssa.Instruction
			idx ssa.Value
			n   int64
		}
		var sites []site
		instrsOf(f, func(in ssa.Instruction) {
			var x, idx ssa.Value
			switch a := in.(type) {
			case *ssa.IndexAddr:
				x, idx = a.X, a.Index
			case *ssa.Index:
				x, idx = a.X, a.Index
			default:
				return
			}
			at, ok := derefType(x.Type()).Underlying().(*types.Array)
			if !ok {
				return
			}
			if _, isc := constInt(strip(idx)); isc {
				return
			}
			if at.Len() > 64 {
				return // the segment table (indexed by 15-bit ids validated where they are parsed) is not a loop-bounded array
			}
			sites = append(sites, site{in, idx, at.Len()})
		})
		for _, s := range sites {
			n++
			r.fn(funcKey(f))
			idx := strip(s.idx)
			if cv, ok := idx.(*ssa.Convert); ok {
				idx = strip(cv.X)
			}
			// index = base + k: the base must be below N - k
			var plus int64
			if bo, ok := idx.(*ssa.BinOp); ok && bo.Op == token.ADD {
				if k, isc := constInt(strip(bo.Y)); isc && k >= 0 {
					if _, isPhi := strip(bo.X).(*ssa.Phi); isPhi {
						if !hasUseAsBound(bo) {
							idx, plus = strip(bo.X), k
						}
					}
				}
			}
			isIdx := func(v ssa.Value) bool {
				v = strip(v)
				if cv, ok := v.(*ssa.Convert); ok {
					v = strip(cv.X)
				}
				return v == idx || sameLoad(v, idx)
			}
			lenOK := func(v ssa.Value) bool { k, ok := constInt(strip(v)); return ok && k <= s.n-plus }
			lenM1 := func(v ssa.Value) bool { k, ok := constInt(strip(v)); return ok && k <= s.n-1-plus }
			okv := controlledBy(f, s.in, func(c *Cond) bool {
				// N > idx, or N-1 >= idx
				return impliesCmp(c, lenOK, isIdx, true) || impliesCmp(c, lenM1, isIdx, false)
			})
			if !okv {
				okv = boundedCounter(f, s.in, idx, s.n)
			}
			boundsUnknown = false
			if !okv {
				okv = afterCountingLoop(p, f, s.in, idx, s.n)
			}
			if !okv {
				if par, isPar := idx.(*ssa.Parameter); isPar {
					o, known := argsBelow(p, f, par, s.n-plus, 0)
					if !known {
						boundsUnknown = true
					}
					okv = o
				} else if _, isFree := idx.(*ssa.FreeVar); isFree {
					boundsUnknown = true
				}
			}
			if !okv && boundsUnknown {
				// the index arrives through a callback or a function value whose call sites this rule does not enumerate
				r.advisory(rule, funcKey(f)+":index<"+fmt.Sprint(s.n), p.Pos(s.in.Pos()), "index bound not decided: the index is a parameter of a closure or of a function used as a value")
				continue
			}
			r.check(okv, rule, funcKey(f)+":index<"+fmt.Sprint(s.n), p.Pos(s.in.Pos()),
				"the array is indexed only where the index is known to be below its length",
				fmt.Sprintf("an array of %d elements is indexed by a value (%s) that is not known to be below %d at this point: with a full bucket (all %d slots in use) the access is an index-out-of-range panic", s.n, valString(s.idx), s.n, s.n))
		}
	}
	r.universe(rule, n, 4)
}

// sameLoad: both values are loads of the same field of the same object (x.f read twice).
func sameLoad(a, b ssa.Value) bool {
	la, ok1 := a.(*ssa.UnOp)
	lb, ok2 := b.(*ssa.UnOp)
	if !ok1 || !ok2 || la.Op != token.MUL || lb.Op != token.MUL {
		return false
	}
	fa, ok1 := la.X.(*ssa.FieldAddr)
	fb, ok2 := lb.X.(*ssa.FieldAddr)
	return ok1 && ok2 && fa.Field == fb.Field && fa.X == fb.X
}

// boundedCounter: the index is a field used as a fill counter - the access is reached only after the test
// "counter == N" took its false edge or reset the counter to 0, and the counter only grows by one per access.
func boundedCounter(f *ssa.Function, at ssa.Instruction, idx ssa.Value, n int64) bool {
	ld, ok := idx.(*ssa.UnOp)
	if !ok || ld.Op != token.MUL {
		return false
	}
	fa, ok := ld.X.(*ssa.FieldAddr)
	if !ok {
		return false
	}
	// a dominating comparison "field == N" in this function, whose true edge stores 0 into the field before joining
	found := false
	for _, b := range f.Blocks {
		c := edgeCond(b, 0)
		if c == nil || c.Op != token.EQL || c.X == nil || c.Y == nil {
			continue
		}
		var fld, k ssa.Value = c.X, c.Y
		if _, isc := strip(fld).(*ssa.Const); isc {
			fld, k = c.Y, c.X
		}
		kv, isc := constInt(strip(k))
		l2, ok := strip(fld).(*ssa.UnOp)
		if !isc || kv != n || !ok {
			continue
		}
		fa2, ok := l2.X.(*ssa.FieldAddr)
		if !ok || fa2.Field != fa.Field || fa2.X != fa.X {
			continue
		}
		if !b.Dominates(at.Block()) {
			continue
		}
		// on the "== N" side the counter is reset to zero before the access
		reset := false
		instrsOf(f, func(in ssa.Instruction) {
			if st, ok := in.(*ssa.Store); ok {
				if fa3, ok := st.Addr.(*ssa.FieldAddr); ok && fa3.Field == fa.Field && fa3.X == fa.X {
					if kv, isc := constInt(strip(st.Val)); isc && kv == 0 {
						reset = true
					}
				}
			}
		})
		if reset {
			found = true
		}
	}
	return found
}

// hasUseAsBound: the sum is itself compared in a loop test (a rotated range loop indexes by "phi + 1" and tests that very
// sum against the length: the sum is then the index to bound, not its base).
func hasUseAsBound(bo *ssa.BinOp) bool {
	if bo.Referrers() == nil {
		return false
	}
	for _, u := range *bo.Referrers() {
		if cmp, ok := u.(*ssa.BinOp); ok {
			switch cmp.Op {
			case token.LSS, token.LEQ, token.GTR, token.GEQ:
				return true
			}
		}
	}
	return false
}

// afterCountingLoop: the index is the counter of a loop "for ; i < C; i++" read after the loop (C <= N-1), and the
// counter starts below N (a constant, or a parameter that every static call site passes from below N): at the exit it
// is max(start, C) < N.
func afterCountingLoop(p *Program, f *ssa.Function, at ssa.Instruction, idx ssa.Value, n int64) bool {
	ph, ok := idx.(*ssa.Phi)
	if !ok || !inCycle(ph.Block()) || at.Block() == ph.Block() || sameCycle(at.Block(), ph.Block()) {
		return false
	}
	h := ph.Block()
	var start ssa.Value
	for i, pred := range h.Preds {
		if i >= len(ph.Edges) {
			return false
		}
		e := strip(ph.Edges[i])
		if h.Dominates(pred) {
			bo, ok := e.(*ssa.BinOp)
			if !ok || bo.Op != token.ADD || strip(bo.X) != ssa.Value(ph) {
				return false
			}
			if k, isc := constInt(strip(bo.Y)); !isc || k != 1 {
				return false
			}
		} else {
			if start != nil {
				return false
			}
			start = e
		}
	}
	if start == nil {
		return false
	}
	// the loop is left only where !(ph < C), C <= N-1
	isPh := func(v ssa.Value) bool { return strip(v) == ssa.Value(ph) }
	okBound := false
	for _, b := range f.Blocks {
		if b != h && !sameCycle(b, h) {
			continue
		}
		for k, succ := range b.Succs {
			if succ == h || sameCycle(succ, h) {
				continue
			}
			c := edgeCond(b, k)
			if c == nil {
				return false
			}
			// exit edge: ph >= C with C <= N-1
			if !impliesCmp(c, isPh, func(v ssa.Value) bool { kk, ok := constInt(strip(v)); return ok && kk <= n-1 }, false) {
				return false
			}
			// and not an exit that could be taken with ph beyond C by more than the start allows: fine, ph only counts up from start
			okBound = true
		}
	}
	if !okBound {
		return false
	}
	if k, isc := constInt(start); isc {
		return k >= 0 && k < n
	}
	par, isPar := start.(*ssa.Parameter)
	if !isPar {
		return false
	}
	ok, known := argsBelow(p, f, par, n, 0)
	if !known {
		boundsUnknown = true
	}
	return ok
}

// boundsUnknown: set when the last bound query depended on call sites that cannot be enumerated.
var boundsUnknown bool

// argsBelow: every static call site of f passes, for parameter par, a value known to be below n there. known=false when
// the call sites cannot be enumerated (f is a closure or is used as a value) or an argument is itself such a parameter.
func argsBelow(p *Program, f *ssa.Function, par *ssa.Parameter, n int64, d int) (ok, known bool) {
	pi := paramIndex(par)
	if f.Parent() != nil || pi < 0 || d > 2 {
		return false, false
	}
	callers := staticCallersOf(p, f)
	if len(callers) == 0 {
		return false, false
	}
	for _, caller := range callers {
		var sites []*ssa.Call
		instrsOf(caller, func(in ssa.Instruction) {
			if c, ok := in.(*ssa.Call); ok && c.Call.StaticCallee() == f {
				sites = append(sites, c)
			}
		})
		if len(sites) == 0 {
			return false, false
		}
		for _, s := range sites {
			if pi >= len(s.Call.Args) {
				return false, false
			}
			a := strip(s.Call.Args[pi])
			if k, isc := constInt(a); isc {
				if k < 0 || k >= n {
					return false, true
				}
				continue
			}
			isA := func(v ssa.Value) bool { return strip(v) == a }
			if controlledBy(caller, s, func(c *Cond) bool {
				return impliesCmp(c, func(v ssa.Value) bool { kk, ok := constInt(strip(v)); return ok && kk <= n }, isA, true)
			}) {
				continue
			}
			if ap, isPar := a.(*ssa.Parameter); isPar {
				if o, k := argsBelow(p, caller, ap, n, d+1); !k {
					return false, false
				} else if !o {
					return false, true
				}
				continue
			}
			if c, _ := callResult(a); c != nil {
				return false, false // computed by a helper: not enumerated here
			}
			return false, true
		}
	}
	return true, true
}

// ruleRecordWriters: the bytes appended to a segment as a record come from the reviewed encoder (encodeRecord, whose
// layout the record rule pins) or are the verbatim bytes of a record the segment iterator decoded (compaction copies
// records). A second encoder - a buffer-reusing batch encoder, say - writes the on-disk format without being covered by
// the layout rule; it fails closed here until it is reviewed.
func ruleRecordWriters(r *Run, p *Program, rule string) {
	wr := p.Fn("(*pogreb.datalog).writeRecord")
	enc := p.Fn("pogreb.encodeRecord")
	if !r.anchor(rule, "(*pogreb.datalog).writeRecord and pogreb.encodeRecord", wr != nil && enc != nil) {
		return
	}
	n := 0
	for _, f := range p.ModuleFuncs("") {
		if f.Pkg != p.MainS {
			continue
		}
		var calls []*ssa.Call
		instrsOf(f, func(in ssa.Instruction) {
			if c, ok := in.(*ssa.Call); ok && c.Call.StaticCallee() == wr {
				calls = append(calls, c)
			}
		})
		for _, c := range calls {
			n++
			r.fn(funcKey(f))
			data := byteSliceArg(&c.Call)
			okv := data != nil && recordBytesOrigin(p, f, data, enc, wr, 0)
			r.check(okv, rule, funcKey(f)+"->writeRecord:data", p.Pos(c.Pos()),
				"the record bytes come from encodeRecord or from a decoded record",
				"bytes appended to a segment as a record are produced by something other than encodeRecord (the encoder whose layout and checksum coverage are pinned) or a decoded record's verbatim data: an unreviewed second writer of the on-disk format (its framing, its CRC coverage) is not covered by the format rules")
		}
	}
	r.universe(rule, n, 3)
}

func recordBytesOrigin(p *Program, f *ssa.Function, v ssa.Value, enc, wr *ssa.Function, d int) bool {
	if d > 5 {
		return false
	}
	srcs := sources(v)
	if len(srcs) == 0 {
		return false
	}
	for _, s := range srcs {
		s = strip(s)
		if fn := fieldName(s); fn == "pogreb.record.data" {
			continue
		}
		if ld, ok := s.(*ssa.UnOp); ok && ld.Op == token.MUL {
			if fieldName(ld.X) == "pogreb.record.data" {
				continue
			}
		}
		if par, ok := s.(*ssa.Parameter); ok {
			// a pass-through helper: every static call site must qualify
			callers := staticCallersOf(p, par.Parent())
			pi := paramIndex(par)
			if len(callers) == 0 || pi < 0 || par.Parent() == wr {
				return false
			}
			for _, caller := range callers {
				found := false
				bad := false
				instrsOf(caller, func(in ssa.Instruction) {
					if c, ok := in.(*ssa.Call); ok && c.Call.StaticCallee() == par.Parent() && pi < len(c.Call.Args) {
						found = true
						if !recordBytesOrigin(p, caller, c.Call.Args[pi], enc, wr, d+1) {
							bad = true
						}
					}
				})
				if !found || bad {
					return false
				}
			}
			continue
		}
		c, _ := callResult(s)
		if c == nil {
			return false
		}
		g := c.Call.StaticCallee()
		if g == nil {
			return false
		}
		if g == enc {
			continue
		}
		if !inModule(g) || g.Signature.Results().Len() == 0 {
			return false
		}
		// a wrapper: every return of it qualifies
		for _, ret := range returnsOf(g) {
			ok := false
			for _, res := range ret.Results {
				if sl, isSl := res.Type().Underlying().(*types.Slice); isSl {
					if b, isB := sl.Elem().Underlying().(*types.Basic); isB && b.Kind() == types.Uint8 {
						ok = recordBytesOrigin(p, g, res, enc, wr, d+1)
					}
				}
			}
			if !ok {
				return false
			}
		}
	}
	return true
}

// ruleSlotLoopExits: a loop over the slots of a bucket goes on to the next bucket of the chain only after it has looked at
// every used slot: an exit of the slot loop from which the loop can be entered again (the walk continues with the next
// bucket) is the loop bound or the empty-slot test. Leaving the slot loop on a mere mismatch (`break` for `continue`)
// hides the slots behind the first colliding one: the key is not found, not deleted, or inserted twice.
func ruleSlotLoopExits(r *Run, p *Program, rule string) {
	n := 0
	for _, f := range p.ModuleFuncs("") {
		if f.Pkg != p.MainS {
			continue
		}
		seenHead := map[*ssa.BasicBlock]bool{}
		instrsOf(f, func(in ssa.Instruction) {
			var x, idx ssa.Value
			switch a := in.(type) {
			case *ssa.IndexAddr:
				x, idx = a.X, a.Index
			case *ssa.Index:
				x, idx = a.X, a.Index
			default:
				return
			}
			if fieldName(x) != "pogreb.bucket.slots" && !strings.HasSuffix(fieldNameOfLoad(x), "bucket.slots") {
				return
			}
			ph, ok := strip(idx).(*ssa.Phi)
			if !ok {
				return
			}
			h := ph.Block()
			if seenHead[h] {
				return
			}
			seenHead[h] = true
			// natural loop of h
			loop := map[*ssa.BasicBlock]bool{h: true}
			var stack []*ssa.BasicBlock
			for _, pr := range h.Preds {
				if h.Dominates(pr) {
					stack = append(stack, pr)
				}
			}
			if len(stack) == 0 {
				return
			}
			for len(stack) > 0 {
				b := stack[len(stack)-1]
				stack = stack[:len(stack)-1]
				if loop[b] {
					continue
				}
				loop[b] = true
				stack = append(stack, b.Preds...)
			}
			n++
			r.fn(funcKey(f))
			bad := false
			for b := range loop {
				for k, s := range b.Succs {
					if loop[s] {
						continue
					}
					if s != h && !blockReaches(s, h) {
						continue // leaves for good (a return, or the handling of the slot that was found)
					}
					c := edgeCond(b, k)
					if c == nil {
						continue
					}
					if isLoopBound(c) {
						continue
					}
					if eq, ok := c.holdsEq(); ok && eq && c.X != nil && c.Y != nil {
						isOff := func(v ssa.Value) bool { return strings.HasSuffix(fieldNameOfLoad(v), "slot.offset") }
						isZero := func(v ssa.Value) bool { k, ok := constInt(strip(v)); return ok && k == 0 }
						if (isOff(c.X) && isZero(c.Y)) || (isOff(c.Y) && isZero(c.X)) {
							continue
						}
					}
					bad = true
					r.bad(rule, funcKey(f)+":slot-loop", p.Pos(c.If.Cond.Pos()), "the loop over a bucket's slots is left ("+c.String(p)+") and the walk goes on with the next bucket although used slots of this bucket have not been looked at: a key stored behind a slot with a colliding hash is not found / not deleted / inserted a second time")
				}
			}
			// a loop that hands slots to other code (the key callback, a slot writer) stops at the first empty slot: used slots
			// are kept compact at the front of a bucket, and an empty slot must never be matched, copied or re-inserted
			usesSlots := false
			emptyStops := false
			for b := range loop {
				for _, bin := range b.Instrs {
					if c, ok := bin.(*ssa.Call); ok {
						if _, isBuiltin := c.Call.Value.(*ssa.Builtin); !isBuiltin {
							// the key callback (a function value) or a module function such as slotWriter.insert
							if g := c.Call.StaticCallee(); (g == nil && !c.Call.IsInvoke()) || (g != nil && inModule(g)) {
								usesSlots = true
							}
						}
					}
				}
				for k, s := range b.Succs {
					c := edgeCond(b, k)
					if c == nil || c.X == nil || c.Y == nil {
						continue
					}
					if eq, ok := c.holdsEq(); ok && eq {
						isOff := func(v ssa.Value) bool { return strings.HasSuffix(fieldNameOfLoad(v), "slot.offset") }
						isZero := func(v ssa.Value) bool { k, ok := constInt(strip(v)); return ok && k == 0 }
						if ((isOff(c.X) && isZero(c.Y)) || (isOff(c.Y) && isZero(c.X))) && !loop[s] {
							emptyStops = true
						}
					}
				}
			}
			if usesSlots && !emptyStops {
				bad = true
				r.bad(rule, funcKey(f)+":slot-loop", p.Pos(in.Pos()), "the loop over a bucket's slots does not stop at the first empty slot (offset == 0): empty slots are handed to the key comparison or copied into the rebuilt chain, where they end up between used slots and cut off everything stored behind them")
			}
			if !bad {
				r.ok(rule, funcKey(f)+":slot-loop", p.Pos(in.Pos()), "the slot loop goes on to the next bucket only at its bound or at the first empty slot, where it stops", true)
			}
		})
	}
	r.universe(rule, n, 1) // one shared helper may hold the only slot loop that hands slots on
}

// fieldNameOfLoad: "Type.field" when v is (a load of) a field.
func fieldNameOfLoad(v ssa.Value) string {
	v = strip(v)
	if fn := fieldName(v); fn != "" {
		return fn
	}
	if ld, ok := v.(*ssa.UnOp); ok && ld.Op == token.MUL {
		return fieldName(ld.X)
	}
	return ""
}

// osConst: the value of an integer constant of package os in the loaded configuration (the O_* flags differ between
// operating systems).
func osConst(p *Program, name string) (int64, bool) {
	for _, pk := range p.Pkgs {
		for _, im := range pk.Types.Imports() {
			if im.Path() == "os" {
				if c, ok := im.Scope().Lookup(name).(*types.Const); ok {
					if v, ok := constant.Int64Val(c.Val()); ok {
						return v, true
					}
				}
			}
		}
	}
	return 0, false
}
