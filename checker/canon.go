package main

import (
	"fmt"
	"go/token"
	"go/types"
	"regexp"
	"sort"
	"strings"

	"golang.org/x/tools/go/ssa"
)

// canon renders an SSA value as a name-independent expression: parameters by position, field accesses by
// qualified field name, loop variables as "phi", calls by callee.
func canon(v ssa.Value) string { return canonD(v, 0) }

func canonD(v ssa.Value, d int) string {
	if d > 14 {
		return "..."
	}
	switch x := v.(type) {
	case *ssa.Const:
		if x.IsNil() {
			return "nil"
		}
		if x.Value == nil {
			return "zero"
		}
		return x.Value.ExactString()
	case *ssa.Parameter:
		return fmt.Sprintf("p%d", paramIndex(x))
	case *ssa.FreeVar:
		return "fv:" + typeName(derefType(x.Type()))
	case *ssa.BinOp:
		return "(" + canonD(x.X, d+1) + x.Op.String() + canonD(x.Y, d+1) + ")"
	case *ssa.UnOp:
		if x.Op == token.MUL {
			return canonAddr(x.X, d+1)
		}
		return x.Op.String() + canonD(x.X, d+1)
	case *ssa.Convert:
		return typeName(x.Type()) + "(" + canonD(x.X, d+1) + ")"
	case *ssa.ChangeType:
		return canonD(x.X, d+1)
	case *ssa.Field:
		if fieldShort(x) == "" {
			return canonD(x.X, d+1)
		}
		return canonD(x.X, d+1) + "." + fieldShort(x)
	case *ssa.Extract:
		return canonD(x.Tuple, d+1) + fmt.Sprintf("#%d", x.Index)
	case *ssa.Call:
		var as []string
		for _, a := range x.Call.Args {
			as = append(as, canonD(a, d+1))
		}
		name := calleeKey(&x.Call)
		if name != "" && x.Call.IsInvoke() {
			// a devirtualised interface call: the receiver is an argument like in the direct call
			as = append([]string{canonD(x.Call.Value, d+1)}, as...)
		}
		if name == "" {
			if b, ok := x.Call.Value.(*ssa.Builtin); ok {
				name = b.Name()
			} else if x.Call.IsInvoke() {
				name = typeName(x.Call.Value.Type()) + "." + x.Call.Method.Name()
				as = append([]string{canonD(x.Call.Value, d+1)}, as...)
			} else {
				name = "dyn"
			}
		}
		return name + "(" + strings.Join(as, ",") + ")"
	case *ssa.Phi:
		return "phi"
	case *ssa.Slice:
		lo, hi := "", ""
		if x.Low != nil {
			lo = canonD(x.Low, d+1)
		}
		if x.High != nil {
			hi = canonD(x.High, d+1)
		}
		return canonD(x.X, d+1) + "[" + lo + ":" + hi + "]"
	case *ssa.Alloc:
		st := allocStores(x)
		if len(st) == 1 {
			return canonD(st[0], d+1)
		}
		return "new:" + typeName(derefType(x.Type()))
	case *ssa.MakeSlice:
		return "make(" + canonD(x.Len, d+1) + ")"
	case *ssa.FieldAddr, *ssa.IndexAddr:
		return "&" + canonAddr(x, d+1)
	case *ssa.Global:
		return x.Pkg.Pkg.Name() + "." + x.Name()
	case *ssa.MakeInterface:
		return canonD(x.X, d+1)
	}
	return "?" + v.Name()
}

// canonAddr renders the location an address value denotes.
func canonAddr(a ssa.Value, d int) string {
	switch x := a.(type) {
	case *ssa.FieldAddr:
		base := canonBase(x.X, d+1)
		if fieldShort(x) == "" {
			return base
		}
		return base + "." + fieldShort(x)
	case *ssa.IndexAddr:
		return canonBase(x.X, d+1) + "[" + canonD(x.Index, d+1) + "]"
	case *ssa.Alloc:
		st := allocStores(x)
		if len(st) == 1 {
			return canonD(st[0], d+1)
		}
		return "local:" + typeName(derefType(x.Type()))
	case *ssa.Global:
		return x.Pkg.Pkg.Name() + "." + x.Name()
	case *ssa.Parameter:
		return fmt.Sprintf("*p%d", paramIndex(x))
	case *ssa.FreeVar:
		return "*fv:" + typeName(derefType(derefType(x.Type())))
	}
	return "*" + canonD(a, d+1)
}

func canonBase(v ssa.Value, d int) string {
	switch x := v.(type) {
	case *ssa.FieldAddr, *ssa.IndexAddr:
		return canonAddr(x, d)
	case *ssa.UnOp:
		if x.Op == token.MUL {
			return canonAddr(x.X, d)
		}
	case *ssa.Alloc:
		return "new:" + typeName(derefType(x.Type()))
	}
	return canonD(v, d)
}

// effects lists the stores and returns of a function in canonical form.
func effects(f *ssa.Function) []string {
	var out []string
	instrsOf(f, func(in ssa.Instruction) {
		switch x := in.(type) {
		case *ssa.Store:
			if a, ok := x.Addr.(*ssa.Alloc); ok && !a.Heap {
				return // local spill
			}
			lp := ""
			if inCycle(x.Block()) {
				lp = " [loop]"
			}
			// a value merged from several branches (a phi outside any loop) is one effect per incoming value: the
			// same function written with one store per branch reads the same
			if ph, ok := strip(x.Val).(*ssa.Phi); ok && !inCycle(ph.Block()) {
				for _, e := range ph.Edges {
					out = append(out, "store "+canonAddr(x.Addr, 0)+" = "+canon(e)+lp)
				}
				return
			}
			out = append(out, "store "+canonAddr(x.Addr, 0)+" = "+canon(x.Val)+lp)
		case *ssa.Return:
			var rs []string
			for i := range x.Results {
				rs = append(rs, canon(retOperand(x, i)))
			}
			out = append(out, "return "+strings.Join(rs, ", "))
		}
	})
	sort.Strings(out)
	return uniq(out)
}

// conds lists the branch conditions of a function in canonical form.
func conds(f *ssa.Function) []string {
	var out []string
	for _, b := range f.Blocks {
		if c := edgeCond(b, 0); c != nil {
			out = append(out, normCondText(canon(c.If.Cond)))
		}
	}
	sort.Strings(out)
	return uniq(out)
}

// normCondText renders a branch condition up to polarity and direction: `a >= b` and `!(a < b)` read "(a<b)",
// `a > b` reads "(b<a)", `a != b` reads "(a==b)" with the operands ordered. (The set of conditions of a function
// does not say which branch does what; the effects do.) It works on the canonical text so that the reviewed
// tables, written before conditions were normalised, are read the same way.
func normCondText(c string) string {
	for strings.HasPrefix(c, "!") {
		c = c[1:]
	}
	if len(c) < 2 || c[0] != '(' || c[len(c)-1] != ')' {
		return c
	}
	in := c[1 : len(c)-1]
	depth := 0
	for i := 0; i < len(in); i++ {
		switch in[i] {
		case '(', '[':
			depth++
		case ')', ']':
			depth--
		}
		if depth != 0 {
			continue
		}
		for _, op := range []string{"==", "!=", "<=", ">=", "<<", ">>", "<", ">"} {
			if !strings.HasPrefix(in[i:], op) {
				continue
			}
			if op == "<<" || op == ">>" {
				i++
				break
			}
			a, b := in[:i], in[i+len(op):]
			switch op {
			case "<", ">=":
				return "(" + a + "<" + b + ")"
			case ">", "<=":
				return "(" + b + "<" + a + ")"
			default:
				if b < a {
					a, b = b, a
				}
				return "(" + a + "==" + b + ")"
			}
		}
	}
	return c
}

// normCond is normCondText on a branch edge, with the truth value the normalised condition has on that edge.
func normCond(c *Cond) (string, bool) {
	raw := canon(c.If.Cond)
	truth := c.Pos
	// edgeCond folded leading negations into Pos already; account for the relation flips of the normal form
	v := c.If.Cond
	for {
		if u, ok := v.(*ssa.UnOp); ok && u.Op == token.NOT {
			v = u.X
			continue
		}
		break
	}
	if bo, ok := v.(*ssa.BinOp); ok {
		switch bo.Op {
		case token.GEQ, token.LEQ, token.NEQ:
			truth = !truth
		}
	}
	return normCondText(raw), truth
}

// effectGuards lists, for every effect of f, the (normalised) branch conditions that control it and their truth:
// "<effect> when <cond>=<true|false>".
func effectGuards(f *ssa.Function) []string {
	var out []string
	type ce struct {
		text  string
		truth bool
	}
	var all []ce
	seen := map[ce]bool{}
	for _, b := range f.Blocks {
		for k := range b.Succs {
			if c := edgeCond(b, k); c != nil {
				t, tr := normCond(c)
				if !seen[ce{t, tr}] {
					seen[ce{t, tr}] = true
					all = append(all, ce{t, tr})
				}
			}
		}
	}
	add := func(in ssa.Instruction, eff string) {
		for _, g := range all {
			g := g
			if controlledBy(f, in, func(c *Cond) bool {
				t, tr := normCond(c)
				return t == g.text && tr == g.truth
			}) {
				out = append(out, fmt.Sprintf("%s when %s=%v", eff, g.text, g.truth))
			}
		}
	}
	instrsOf(f, func(in ssa.Instruction) {
		switch x := in.(type) {
		case *ssa.Store:
			if a, ok := x.Addr.(*ssa.Alloc); ok && !a.Heap {
				return
			}
			lp := ""
			if inCycle(x.Block()) {
				lp = " [loop]"
			}
			if ph, ok := strip(x.Val).(*ssa.Phi); ok && !inCycle(ph.Block()) {
				return // per-branch values of a merged store are not located on one branch
			}
			add(in, "store "+canonAddr(x.Addr, 0)+" = "+canon(x.Val)+lp)
		case *ssa.Return:
			var rs []string
			for i := range x.Results {
				rs = append(rs, canon(retOperand(x, i)))
			}
			add(in, "return "+strings.Join(rs, ", "))
		}
	})
	sort.Strings(out)
	return uniq(out)
}

// checkShape compares effects+conditions of fn with the reviewed shape.
func checkShape(r *Run, p *Program, rule, key string, want []string, what, consequence string) {
	f := p.Fn(key)
	if !r.anchor(rule, key, f != nil) {
		return
	}
	r.fn(key)
	got := append(effects(f), prefixAll("if ", conds(f))...)
	sort.Strings(got)
	w := append([]string{}, want...)
	for i, x := range w {
		if strings.HasPrefix(x, "if ") {
			w[i] = "if " + normCondText(strings.TrimPrefix(x, "if "))
		}
	}
	sort.Strings(w)
	gm, wm := map[string]bool{}, map[string]bool{}
	for _, g := range got {
		gm[g] = true
	}
	for _, x := range w {
		wm[x] = true
	}
	var missing, extra []string
	for _, x := range w {
		if !gm[x] {
			missing = append(missing, x)
		}
	}
	for _, g := range got {
		if !wm[g] {
			// tolerated additions: a branch condition, or a return of constants/zero values only (defensive guard)
			if strings.HasPrefix(g, "if ") || trivialReturn(g) {
				continue
			}
			extra = append(extra, g)
		}
	}
	if len(missing) == 0 && len(extra) == 0 {
		r.ok(rule, key, p.Pos(f.Pos()), what+": "+strings.Join(got, "; "), true)
		return
	}
	// a field the reviewed definition names no longer exists anywhere in the package: it was renamed, the definition
	// cannot be compared (reported in the evidence, not a violation: a rename does not change behaviour)
	if gone := missingFields(p, want); len(gone) > 0 {
		r.advisory(rule, key, p.Pos(f.Pos()), "reviewed definition not compared: field(s) "+strings.Join(gone, ", ")+" no longer exist (renamed); the table needs updating")
		return
	}
	r.bad(rule, key, p.Pos(f.Pos()), fmt.Sprintf("%s computes something else than the reviewed definition (%s). Expected but absent: {%s}; present but not expected: {%s}. %s", key, what, strings.Join(missing, "; "), strings.Join(extra, "; "), consequence))
}

func prefixAll(pre string, in []string) []string {
	var out []string
	for _, s := range in {
		out = append(out, pre+s)
	}
	return out
}

func dumpShapes(p *Program) {
	for _, k := range []string{"(*pogreb.index).bucketIndex", "(*pogreb.bucket).del", "(*pogreb.slotWriter).insert", "(*pogreb.index).createOverflowBucket",
		"(*pogreb.datalog).readKeyValue", "(*pogreb.datalog).readKey", "(pogreb.slot).kvSize", "pogreb.encodedRecordSize", "(*pogreb.file).extend", "(*pogreb.slotWriter).write", "(*pogreb.bucketIterator).next", "(*pogreb.index).newBucketIterator", "(*pogreb.datalog).trackDel", "pogreb.cloneBytes", "internal/hash.Sum32WithSeed", "(*pogreb.DB).hash"} {
		f := p.Fn(k)
		if f == nil {
			fmt.Println("missing", k)
			continue
		}
		fmt.Println("==", k)
		for _, e := range effects(f) {
			fmt.Printf("\t%q,\n", e)
		}
		for _, c := range conds(f) {
			fmt.Printf("\t%q,\n", "if "+c)
		}
		for _, g := range effectGuards(f) {
			fmt.Printf("\tguard: %q,\n", g)
		}
	}
}

func trivialReturn(s string) bool {
	if !strings.HasPrefix(s, "return") {
		return false
	}
	for _, part := range strings.Split(strings.TrimSpace(strings.TrimPrefix(s, "return")), ", ") {
		switch part {
		case "", "nil", "zero", "0", "false", "true":
		default:
			return false
		}
	}
	return true
}

var fieldTokRe = regexp.MustCompile(`\.([A-Za-z_][A-Za-z0-9_]*)(\(?)`)

// missingFields lists field names used in the reviewed shape that are not a field of any struct of package pogreb.
func missingFields(p *Program, want []string) []string {
	have := map[string]bool{}
	sc := p.Main.Types.Scope()
	for _, nm := range sc.Names() {
		tn, ok := sc.Lookup(nm).(*types.TypeName)
		if !ok {
			continue
		}
		if st, ok := tn.Type().Underlying().(*types.Struct); ok {
			for i := 0; i < st.NumFields(); i++ {
				have[st.Field(i).Name()] = true
			}
		}
	}
	seen := map[string]bool{}
	var out []string
	for _, w := range want {
		for _, m := range fieldTokRe.FindAllStringSubmatch(w, -1) {
			n := m[1]
			if m[2] == "(" {
				continue // a function or method name
			}
			if n == "com" || n == "bucketHandle" || n == "slot" || n == "bucketIterator" || seen[n] {
				continue
			}
			// tokens that are type or function names (after "pogreb.") are not fields
			if strings.Contains(w, "pogreb."+n) || strings.Contains(w, "github."+n) || strings.Contains(w, "fs.File."+n) || strings.Contains(w, "File."+n+"(") {
				continue
			}
			seen[n] = true
			if !have[n] {
				out = append(out, n)
			}
		}
	}
	return out
}
