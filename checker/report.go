package main

import (
	"bufio"
	"encoding/json"
	"fmt"
	"os"
	"path/filepath"
	"sort"
	"strings"
	"time"
)

// Status of one obligation.
type Status string

const (
	OK        Status = "ok"
	Violation Status = "violation"
	Undecided Status = "undecided" // fail-closed: counts as a violation
	Advisory  Status = "advisory"  // reported in the evidence only
)

// Obligation is one decided instance of a rule: rule x construct (x configuration).
type Obligation struct {
	Rule       string   `json:"rule"`
	Construct  string   `json:"construct"`
	Config     string   `json:"config"`
	Pos        string   `json:"pos,omitempty"`
	Status     Status   `json:"status"`
	Detail     string   `json:"detail,omitempty"`
	Witness    []string `json:"witness,omitempty"`
	NonTrivial bool     `json:"nontrivial"` // decided by a path / flow / lockset argument, not a table lookup
}

// Run collects what one invocation decided.
type Run struct {
	Property  string
	Tier      string
	Obls      []Obligation
	Universe  map[string]int // rule -> number of instances found
	Floors    map[string]int
	Notes     []string
	Funcs     map[string]bool // functions analysed
	CallSites int
	Configs   []string
	Controls  []string // positive controls that fired as required
	cur       *Program
	fatal     []string
	start     time.Time
}

func NewRun(prop, tier string) *Run {
	return &Run{Property: prop, Tier: tier, Universe: map[string]int{}, Floors: map[string]int{}, Funcs: map[string]bool{}, start: time.Now()}
}

func (r *Run) cfg() string {
	if r.cur == nil {
		return "-"
	}
	return r.cur.Cfg.String()
}

func (r *Run) add(o Obligation) {
	o.Config = r.cfg()
	r.Obls = append(r.Obls, o)
}

func (r *Run) ok(rule, construct, pos, detail string, nontrivial bool, witness ...string) {
	r.add(Obligation{Rule: rule, Construct: construct, Pos: pos, Status: OK, Detail: detail, NonTrivial: nontrivial, Witness: witness})
}

func (r *Run) bad(rule, construct, pos, detail string, witness ...string) {
	r.add(Obligation{Rule: rule, Construct: construct, Pos: pos, Status: Violation, Detail: detail, NonTrivial: true, Witness: witness})
}

func (r *Run) undecided(rule, construct, pos, detail string, witness ...string) {
	r.add(Obligation{Rule: rule, Construct: construct, Pos: pos, Status: Undecided, Detail: detail, NonTrivial: true, Witness: witness})
}

func (r *Run) advisory(rule, construct, pos, detail string) {
	r.add(Obligation{Rule: rule, Construct: construct, Pos: pos, Status: Advisory, Detail: detail})
}

// check is a convenience: ok when cond, else violation.
func (r *Run) check(cond bool, rule, construct, pos, okDetail, badDetail string, witness ...string) bool {
	if cond {
		r.ok(rule, construct, pos, okDetail, true, witness...)
	} else {
		r.bad(rule, construct, pos, badDetail, witness...)
	}
	return cond
}

// universe records the number of instances a rule found and its floor (confirmed by reading).
func (r *Run) universe(rule string, n, floor int) {
	key := rule + "@" + r.cfg()
	r.Universe[key] = n
	r.Floors[key] = floor
	if n < floor {
		r.add(Obligation{Rule: rule, Construct: "universe", Status: Undecided, NonTrivial: false,
			Detail: fmt.Sprintf("rule found %d instances, fewer than the floor %d confirmed by reading: an anchor moved or the rule would pass vacuously", n, floor)})
	}
}

// anchor fails closed when a named program element cannot be resolved.
func (r *Run) anchor(rule, what string, present bool) bool {
	if !present {
		r.add(Obligation{Rule: rule, Construct: "anchor:" + what, Status: Undecided, NonTrivial: false,
			Detail: "anchor-unresolved: " + what + " not found in the loaded program; the rule cannot be decided"})
	}
	return present
}

func (r *Run) fn(f string) { r.Funcs[f] = true }

// ---- known findings ----

type knownFinding struct {
	Property, Rule, Construct, Text string
}

func loadKnown(path string) ([]knownFinding, error) {
	f, err := os.Open(path)
	if err != nil {
		if os.IsNotExist(err) {
			return nil, nil
		}
		return nil, err
	}
	defer f.Close()
	var out []knownFinding
	sc := bufio.NewScanner(f)
	for sc.Scan() {
		line := strings.TrimSpace(sc.Text())
		if !strings.HasPrefix(line, "finding:") {
			continue // comments and "fixed:" lines suppress nothing
		}
		k := knownFinding{}
		rest := strings.TrimSpace(strings.TrimPrefix(line, "finding:"))
		fields := strings.Fields(rest)
		n := 0
		for _, fl := range fields {
			switch {
			case strings.HasPrefix(fl, "property=") && k.Property == "":
				k.Property = strings.TrimPrefix(fl, "property=")
				n++
			case strings.HasPrefix(fl, "rule=") && k.Rule == "":
				k.Rule = strings.TrimPrefix(fl, "rule=")
				n++
			case strings.HasPrefix(fl, "construct=") && k.Construct == "":
				k.Construct = strings.TrimPrefix(fl, "construct=")
				n++
			default:
				if n >= 3 {
					k.Text += fl + " "
				}
			}
		}
		k.Text = strings.TrimSpace(k.Text)
		out = append(out, k)
	}
	return out, sc.Err()
}

// constructKey normalises a construct for matching (no spaces).
func constructKey(s string) string { return strings.ReplaceAll(s, " ", "") }

// Finish writes evidence and reports, prints the verdict lines and returns the exit code.
func (r *Run) Finish(outDir string, seed int64, explanation string, assumptions []string) int {
	known, err := loadKnown(filepath.Join(outDir, "known_findings.txt"))
	if err != nil {
		r.fatal = append(r.fatal, "cannot read known_findings.txt: "+err.Error())
	}
	_ = os.MkdirAll(filepath.Join(outDir, "evidence"), 0755)
	_ = os.MkdirAll(filepath.Join(outDir, "reports"), 0755)
	// remove stale reports of this property
	old, _ := filepath.Glob(filepath.Join(outDir, "reports", r.Property+"-*.json"))
	for _, f := range old {
		_ = os.Remove(f)
	}

	sort.SliceStable(r.Obls, func(i, j int) bool {
		a, b := r.Obls[i], r.Obls[j]
		if a.Rule != b.Rule {
			return a.Rule < b.Rule
		}
		if a.Construct != b.Construct {
			return a.Construct < b.Construct
		}
		return a.Config < b.Config
	})

	type distinctKey struct{ rule, construct string }
	distinct := map[distinctKey]bool{}
	violations := 0
	knownHits := 0
	var samples []Obligation
	var bad []Obligation
	perRule := map[string]int{}
	reported := map[distinctKey]bool{}
	nrep := 0
	for _, o := range r.Obls {
		perRule[o.Rule]++
		if o.NonTrivial {
			distinct[distinctKey{o.Rule, o.Construct}] = true
		}
		if o.Status == Violation || o.Status == Undecided {
			dk := distinctKey{o.Rule, constructKey(o.Construct)}
			if reported[dk] {
				continue // same construct in another configuration
			}
			reported[dk] = true
			matched := false
			if o.Status == Violation {
				for _, k := range known {
					if k.Property == r.Property && k.Rule == o.Rule && constructKey(k.Construct) == constructKey(o.Construct) {
						matched = true
						fmt.Printf("KNOWN-FINDING: property=%s rule=%s construct=%s %s\n", r.Property, o.Rule, constructKey(o.Construct), k.Text)
						knownHits++
						break
					}
				}
			}
			if matched {
				continue
			}
			violations++
			nrep++
			bad = append(bad, o)
			rp := filepath.Join(outDir, "reports", fmt.Sprintf("%s-%s-%d.json", r.Property, strings.ReplaceAll(o.Rule, ".", "_"), nrep))
			rep := map[string]interface{}{
				"property": r.Property, "rule": o.Rule, "construct": o.Construct, "pos": o.Pos, "status": o.Status,
				"detail": o.Detail, "witness": o.Witness, "config": o.Config,
				"replay": fmt.Sprintf("/verif/run.sh %s %s", r.Property, r.Tier),
			}
			b, _ := json.MarshalIndent(rep, "", " ")
			_ = os.WriteFile(rp, b, 0644)
			fmt.Printf("  [%s] %s @ %s (%s): %s\n", o.Status, o.Rule, o.Construct, o.Pos, o.Detail)
			for _, w := range o.Witness {
				fmt.Printf("      %s\n", w)
			}
			fmt.Printf("VIOLATION property=%s replay=%s\n", r.Property, rp)
		}
	}
	for _, m := range r.fatal {
		violations++
		fmt.Printf("  [fatal] %s\n", m)
		rp := filepath.Join(outDir, "reports", fmt.Sprintf("%s-fatal-%d.json", r.Property, violations))
		b, _ := json.MarshalIndent(map[string]string{"property": r.Property, "fatal": m}, "", " ")
		_ = os.WriteFile(rp, b, 0644)
		fmt.Printf("VIOLATION property=%s replay=%s\n", r.Property, rp)
	}
	// samples: a few obligations per rule, non-trivial first
	seen := map[string]int{}
	for _, o := range r.Obls {
		if o.NonTrivial && seen[o.Rule] < 2 {
			seen[o.Rule]++
			samples = append(samples, o)
		}
	}
	if len(samples) == 0 && len(r.Obls) > 0 {
		samples = append(samples, r.Obls[0])
	}
	var funcs []string
	for f := range r.Funcs {
		funcs = append(funcs, f)
	}
	sort.Strings(funcs)
	ruleNames := []string{}
	for k := range perRule {
		ruleNames = append(ruleNames, k)
	}
	sort.Strings(ruleNames)
	cov := map[string]interface{}{
		"explanation":          explanation,
		"evaluations":          len(r.Obls),
		"distinct_nontrivial":  len(distinct),
		"rule":                 "one evaluation = one obligation (rule instance x construct x build configuration) decided on the current source of /repo; distinct_nontrivial counts distinct (rule, construct) pairs whose decision needed a path, dominance, lockset or value-flow argument over the SSA/AST (table look-ups and floor checks are excluded)",
		"samples":              samples,
		"exhaustive":           true,
		"obligations_per_rule": perRule,
		"rule_universe":        r.Universe,
		"rule_floors":          r.Floors,
		"functions_analysed":   funcs,
		"functions_count":      len(funcs),
		"call_sites":           r.CallSites,
		"configurations":       r.Configs,
		"positive_controls":    r.Controls,
		"known_findings_hit":   knownHits,
		"unmatched_violations": bad,
		"notes":                r.Notes,
		"renames_resolved":     aliasNotes,
		"all_obligations":      r.Obls,
	}
	ev := map[string]interface{}{
		"property_id": r.Property,
		"tier":        r.Tier,
		"seed":        seed,
		"level":       "other",
		"coverage":    cov,
		"assumptions": assumptions,
		"wall_s":      time.Since(r.start).Seconds(),
		"violations":  violations,
	}
	b, _ := json.MarshalIndent(ev, "", " ")
	if err := os.WriteFile(filepath.Join(outDir, "evidence", r.Property+".json"), b, 0644); err != nil {
		fmt.Println("cannot write evidence:", err)
		return 2
	}
	fmt.Printf("%s %s: %d obligations (%d distinct non-trivial) over %d functions, %d configuration(s): %d violation(s), %d known finding(s)\n",
		r.Property, r.Tier, len(r.Obls), len(distinct), len(funcs), len(r.Configs), violations, knownHits)
	if violations > 0 {
		return 1
	}
	return 0
}
