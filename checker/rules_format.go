package main

import (
	"fmt"
	"go/ast"
	"go/constant"
	"go/token"
	"go/types"
	"regexp"
	"sort"
	"strings"

	"golang.org/x/tools/go/ssa"
)

var localRe = regexp.MustCompile(`(local:[A-Za-z0-9_]*|sum),?`)

func normRow(s string) string {
	s = localRe.ReplaceAllString(s, "")
	s = strings.TrimSuffix(strings.TrimSpace(s), ",")
	return strings.Join(strings.Fields(s), " ")
}

// dropGetDest: for these functions the destination of decoded integers is not part of the comparison (it is a local, a
// helper struct, ...); what is decoded from where, and what the checksum is compared with, still is.
var dropGetDest = map[string]bool{"(*pogreb.segmentIterator).next": true}

func compareLayoutNorm(r *Run, p *Program, rule, construct string, fn *ssa.Function, want []string, sym func(v ssa.Value) string) {
	r.fn(funcKey(fn))
	rows, und := extractLayout(fn, sym)
	if dropGetDest[funcKey(fn)] {
		for i := range rows {
			if rows[i].Kind == "get" && !strings.Contains(rows[i].What, "crc32") {
				rows[i].What = ""
			}
		}
	}
	for _, u := range und {
		r.undecided(rule, construct, p.Pos(fn.Pos()), "layout not decidable: "+u)
	}
	gm := map[string]bool{}
	var got []string
	for _, row := range rows {
		s := normRow(row.String())
		if !gm[s] {
			gm[s] = true
			got = append(got, s)
		}
	}
	sort.Strings(got)
	wm := map[string]bool{}
	for _, x := range want {
		wm[normRow(x)] = true
	}
	var missing, extra []string
	for x := range wm {
		if !gm[x] {
			missing = append(missing, x)
		}
	}
	for _, g := range got {
		if !wm[g] {
			extra = append(extra, g)
		}
	}
	sort.Strings(missing)
	if len(missing) == 0 && len(extra) == 0 {
		r.ok(rule, construct, p.Pos(fn.Pos()), fmt.Sprintf("byte layout equals the documented format v2 (%d accesses): %s", len(got), strings.Join(got, "; ")), true)
		return
	}
	r.bad(rule, construct, p.Pos(fn.Pos()), fmt.Sprintf("the byte layout written/accepted by %s differs from the documented format v2: in the format but not in the code {%s}; in the code but not in the format {%s}", funcKey(fn), strings.Join(missing, "; "), strings.Join(extra, "; ")))
}

var specBucketMarshal = []string{
	"put32 [16*i:16*i+4] pogreb.slot.hash (per iteration i)",
	"put16 [16*i+4:16*i+6] pogreb.slot.segmentID (per iteration i)",
	"put16 [16*i+6:16*i+8] pogreb.slot.keySize (per iteration i)",
	"put32 [16*i+8:16*i+12] pogreb.slot.valueSize (per iteration i)",
	"put32 [16*i+12:16*i+16] pogreb.slot.offset (per iteration i)",
	"put64 [496:504] pogreb.bucket.next",
}
var specBucketUnmarshal = []string{
	"get32 [16*i:16*i+4] pogreb.slot.hash (per iteration i)",
	"get16 [16*i+4:16*i+6] pogreb.slot.segmentID (per iteration i)",
	"get16 [16*i+6:16*i+8] pogreb.slot.keySize (per iteration i)",
	"get32 [16*i+8:16*i+12] pogreb.slot.valueSize (per iteration i)",
	"get32 [16*i+12:16*i+16] pogreb.slot.offset (per iteration i)",
	"get64 [496:504] pogreb.bucket.next",
}
var specHeaderMarshal = []string{
	"copy-to0 [0:8] slice(pogreb.header.signature)",
	"put32 [8:12] pogreb.header.formatVersion",
}
var specHeaderUnmarshal = []string{
	"equal0 [0:8] slice(pogreb.signature)",
	"copy-to0 [0:8] slice(param:data)",
	"get32 [8:12] pogreb.header.formatVersion",
}
var specEncodeRecord = []string{
	"put16 [0:2] len(param:key)",
	"put32 [2:6] phi{len(param:value),len(param:value)|2147483648}",
	"copy-to0 [6:K+V+10] param:key",
	"copy-to0 [K+6:K+V+10] param:value",
	"crc0 [0:K+V+6]",
	"put32 [K+V+6:K+V+10] hash/crc32.ChecksumIEEE()",
}
var specDecodeRecord = []string{
	"read-into0 [0:]",
	"get16 [0:2]",
	"get32 [2:6]",
	"copy-to0 [0:K+V+10] pogreb.segmentIterator.buf",
	"read-into0 [6:K+V+10]",
	"get32 [K+V+6:K+V+10] cmp:hash/crc32.ChecksumIEEE()",
	"crc0 [0:K+V+6] cmp:(encoding/binary.littleEndian).Uint32()",
	"field0 [6:K+6] pogreb.record.key",
	"field0 [K+6:K+V+6] pogreb.record.value",
}

// ruleRecordLayout: encoder and decoder of log records agree with the documented record format.
func ruleRecordLayout(r *Run, p *Program, rule string) {
	enc := p.Fn("pogreb.encodeRecord")
	dec := p.Fn("(*pogreb.segmentIterator).next")
	if !r.anchor(rule, "pogreb.encodeRecord and (*pogreb.segmentIterator).next", enc != nil && dec != nil) {
		return
	}
	compareLayoutNorm(r, p, rule, "pogreb.encodeRecord", enc, specEncodeRecord, recordSyms)
	compareLayoutNorm(r, p, rule, "(*pogreb.segmentIterator).next", dec, specDecodeRecord, recordSyms)
	// total size = 10 + K + V on both sides
	checkSize := func(f *ssa.Function, what string) {
		found := false
		instrsOf(f, func(in ssa.Instruction) {
			ms, ok := in.(*ssa.MakeSlice)
			if !ok {
				return
			}
			l := (&LinEnv{Sym: recordSyms}).Eval(ms.Len)
			if l != nil && l.String() == "K+V+10" {
				found = true
			}
		})
		r.check(found, rule, funcKey(f)+":size", p.Pos(f.Pos()), what+" buffer is 2+4+K+V+4 bytes", what+" buffer size is not keysize(2)+valuesize(4)+K+V+crc(4)")
	}
	checkSize(enc, "the encoded record")
	checkSize(dec, "the decode")
	// the type bit: set by the encoder exactly for delete records, decoded to the delete type exactly when set
	var orInstr *ssa.BinOp
	instrsOf(enc, func(in ssa.Instruction) {
		if bo, ok := in.(*ssa.BinOp); ok && bo.Op == token.OR {
			if k, ok := constInt(bo.Y); ok && k == 1<<31 {
				orInstr = bo
			}
		}
	})
	if r.anchor(rule, "type-bit OR in encodeRecord", orInstr != nil) {
		okv := controlledBy(enc, orInstr, func(c *Cond) bool {
			eq, ok := c.holdsEq()
			if !ok || !eq {
				return false
			}
			k, isk := constInt(c.Y)
			_, isParam := strip(c.X).(*ssa.Parameter)
			return isk && k == 1 && isParam
		})
		r.check(okv, rule, "pogreb.encodeRecord:type-bit", p.Pos(orInstr.Pos()), "bit 31 of the value-size field is set exactly for delete records (type 1)", "the record type bit is not set exactly when the record type is Delete")
	}
	// decoder: the returned record type is Delete iff the bit was set
	okDec := false
	maskCond := func(c *Cond) bool {
		eq, ok := c.holdsEq()
		if !ok || eq {
			return false
		}
		bo, isb := strip(c.X).(*ssa.BinOp)
		if !isb || bo.Op != token.AND {
			return false
		}
		m, ism := constInt(bo.Y)
		z, isz := constInt(c.Y)
		return ism && m == 1<<31 && isz && z == 0
	}
	for _, df := range deepFuncs(p, dec) {
		df := df
		instrsOf(df, func(in ssa.Instruction) {
			switch x := in.(type) {
			case *ssa.Phi:
				if !strings.HasSuffix(typeName(x.Type()), "recordType") || len(x.Edges) != 2 {
					return
				}
				for i, e := range x.Edges {
					if k, ok := constInt(e); ok && k == 1 {
						pred := x.Block().Preds[i]
						if blockEnteredOnlyUnder(df, pred, maskCond) {
							okDec = true
						}
					}
				}
			case *ssa.Store:
				// a record-type field / variable set to Delete
				if k, ok := constInt(x.Val); ok && k == 1 && strings.HasSuffix(typeName(x.Val.Type()), "recordType") {
					if controlledBy(df, x, maskCond) {
						okDec = true
					}
				}
			}
		})
	}
	r.check(okDec, rule, "(*pogreb.segmentIterator).next:type-bit", p.Pos(dec.Pos()), "a record is decoded as Delete exactly when bit 31 of the value-size field is set", "the decoder does not derive the record type from bit 31 of the value-size field")
	// constants of the record type
	checkConst(r, p, rule, "recordTypePut", "0")
	checkConst(r, p, rule, "recordTypeDelete", "1")
}

func blockEnteredOnlyUnder(fn *ssa.Function, b *ssa.BasicBlock, pred func(c *Cond) bool) bool {
	if len(b.Instrs) == 0 {
		return false
	}
	return controlledBy(fn, b.Instrs[0], pred)
}

func checkConst(r *Run, p *Program, rule, name, want string) {
	obj := p.Main.Types.Scope().Lookup(name)
	c, ok := obj.(*types.Const)
	if !r.anchor(rule, "constant "+name, ok) {
		return
	}
	got := c.Val().ExactString()
	if c.Val().Kind() == constant.String {
		got = constant.StringVal(c.Val())
	}
	r.check(got == want, rule, "const:"+name, p.Pos(c.Pos()), name+" = "+want, fmt.Sprintf("constant %s is %s, the documented format / public contract needs %s", name, got, want))
}

// ruleC08Gates: a record is surfaced, and the iterator offset advanced, only after the checksum matched; the
// truncation point is that offset; every damaged-tail outcome is one recovery treats as "truncate and go on".
func ruleC08Gates(r *Run, p *Program, rule string) {
	f := p.Fn("(*pogreb.segmentIterator).next")
	if !r.anchor(rule, "(*pogreb.segmentIterator).next", f != nil) {
		return
	}
	r.fn(funcKey(f))
	crcOK := func(c *Cond) bool {
		eq, ok := c.holdsEq()
		if !ok || !eq {
			return false
		}
		isCrc := func(v ssa.Value) bool {
			c, ok := strip(v).(*ssa.Call)
			return ok && calleeKey(&c.Call) == "hash/crc32.ChecksumIEEE"
		}
		isStored := func(v ssa.Value) bool {
			c, ok := strip(v).(*ssa.Call)
			return ok && calleeKey(&c.Call) == "(encoding/binary.littleEndian).Uint32"
		}
		return (isCrc(c.X) && isStored(c.Y)) || (isCrc(c.Y) && isStored(c.X))
	}
	n := 0
	for _, ret := range returnsOf(f) {
		if isFailureReturn(f, ret) {
			continue
		}
		n++
		r.check(controlledBy(f, ret, crcOK), rule, funcKey(f)+":record-after-checksum", p.Pos(instrPos(ret)), "a record is returned only when the stored CRC equals the CRC computed over all preceding bytes", "the segment iterator can return a record without its checksum having matched: damaged bytes are replayed as data")
	}
	r.universe(rule+":returns", n, 1)
	st := 0
	instrsOf(f, func(in ssa.Instruction) {
		s, ok := in.(*ssa.Store)
		if !ok || fieldName(s.Addr) != "pogreb.segmentIterator.offset" {
			return
		}
		st++
		r.check(controlledBy(f, s, crcOK), rule, funcKey(f)+":offset-after-checksum", p.Pos(s.Pos()), "the iterator offset advances only past records whose checksum matched", "the iterator offset is advanced before the record's checksum was verified: recovery truncates the segment after the damaged record instead of before it, the garbage stays in the log and everything appended later is discarded by the next recovery")
		// by the record size
		okAdv := false
		if bo, ok := s.Val.(*ssa.BinOp); ok && bo.Op == token.ADD && isFieldLoad(bo.X, "pogreb.segmentIterator.offset") {
			l := (&LinEnv{Sym: recordSyms}).Eval(bo.Y)
			okAdv = l != nil && l.String() == "K+V+10"
		}
		r.check(okAdv, rule, funcKey(f)+":offset-advance", p.Pos(s.Pos()), "the offset advances by the encoded record size 10+K+V", "the iterator offset does not advance by the encoded size of the record")
	})
	r.universe(rule+":offset-stores", st, 1)
	// the record's offset is the offset before the advance, segment id is the iterated segment's
	// (covered by C03.open-order slot checks and the layout rule)

	g := p.Fn("(*pogreb.recoveryIterator).next")
	if !r.anchor(rule, "(*pogreb.recoveryIterator).next", g != nil) {
		return
	}
	r.fn(funcKey(g))
	// truncation point
	var trunc *ssa.Call
	var truncSite ssa.Instruction
	{
		w, _ := allNodes(p, g)
		for nd := range w.Reached {
			c, ok := nd.In.(*ssa.Call)
			if !ok {
				continue
			}
			if calleeKey(&c.Call) == "(*pogreb.file).truncate" && funcKey(nd.Ctx.Fn) != "(*pogreb.file).truncate" {
				trunc = c
				truncSite = rootSite(nd)
			}
		}
	}
	if r.anchor(rule, "truncate call under recoveryIterator.next", trunc != nil) {
		arg := trunc.Call.Args[len(trunc.Call.Args)-1]
		okv := false
		if cv, ok := strip(arg).(*ssa.Convert); ok && isFieldLoad(cv.X, "pogreb.segmentIterator.offset") {
			okv = true
		}
		r.check(okv, rule, funcKey(g)+":truncate-point", p.Pos(trunc.Pos()), "the segment is truncated at segmentIterator.offset (end of the last record whose checksum matched)", "the segment is not truncated at the end of the last valid record")
	}
	// tail errors: what the segment iterator can return vs what recovery recognises
	handled := map[string]bool{}
	for _, b := range g.Blocks {
		for k := range b.Succs {
			c := edgeCond(b, k)
			if c == nil {
				continue
			}
			if eq, ok := c.holdsEq(); ok && eq {
				for _, pr := range [][2]ssa.Value{{c.X, c.Y}, {c.Y, c.X}} {
					if gl := globalLoad(pr[1]); gl != "" {
						// compared value must be the iterator's error
						for _, s := range sources(pr[0]) {
							if call, idx := callResult(s); call != nil && idx == 1 && calleeKey(&call.Call) == "(*pogreb.segmentIterator).next" {
								handled[gl] = true
							}
						}
					}
				}
			}
		}
	}
	var hl []string
	for h := range handled {
		hl = append(hl, h)
	}
	sort.Strings(hl)
	r.Notes = append(r.Notes, "errors recovery recognises as a damaged tail / end of segment: "+strings.Join(hl, ", "))
	nerr := 0
	for _, ret := range returnsOf(f) {
		if len(ret.Results) != 2 {
			continue
		}
		ev := strip(retOperand(ret, 1))
		if isNilConst(ev) {
			continue
		}
		nerr++
		construct := funcKey(f) + ":error(" + valString(ev) + ")"
		if gl := globalLoad(ev); gl != "" {
			r.check(handled[gl], rule, construct, p.Pos(instrPos(ret)), "recovery recognises "+gl, "the segment iterator returns "+gl+", which recovery does not recognise as a damaged tail: the recovering Open fails instead of truncating the tail")
			continue
		}
		if call, idx := callResult(ev); call != nil && calleeKey(&call.Call) == "io.ReadFull" && idx == 1 {
			okv := handled["io.EOF"] && handled["io.ErrUnexpectedEOF"]
			r.check(okv, rule, construct, p.Pos(instrPos(ret)), "a short read (io.EOF / io.ErrUnexpectedEOF from io.ReadFull) is recognised by recovery", "recovery does not recognise both io.EOF and io.ErrUnexpectedEOF, which io.ReadFull returns for a short tail")
			continue
		}
		r.bad(rule, construct, p.Pos(instrPos(ret)), "the segment iterator can return an error ("+valString(ev)+") that is neither a sentinel recovery compares against nor the pass-through of io.ReadFull: recovery cannot recognise it as a damaged tail and the recovering Open fails on every restart")
	}
	r.universe(rule+":error-returns", nerr, 3)
	// a valid record is never rejected on its header alone: the "truncated" verdict is reachable only through the comparison
	// with the file size, the "corrupted" verdict only through the checksum mismatch
	for _, ret := range returnsOf(f) {
		if len(ret.Results) != 2 {
			continue
		}
		switch globalLoad(strip(retOperand(ret, 1))) {
		case "io.ErrUnexpectedEOF":
			okv := controlledBy(f, ret, func(c *Cond) bool {
				switch c.Op {
				case token.GTR, token.LSS, token.GEQ, token.LEQ:
					return hasFieldLoad(c.X, "pogreb.file.size") || hasFieldLoad(c.Y, "pogreb.file.size")
				}
				return false
			})
			r.check(okv, rule, funcKey(f)+":truncated-only-by-size", p.Pos(instrPos(ret)), "a record is declared truncated only by comparing its claimed end with the file size", "the segment iterator can declare a record truncated for a reason other than 'its claimed end lies beyond the file size' (e.g. on a header pattern such as zero lengths): a valid record - an empty key with an empty value has an all-zero header - ends the replay of the segment and everything after it is cut off")
		case "pogreb.errCorrupted":
			okv := controlledBy(f, ret, func(c *Cond) bool {
				cc := *c
				cc.Pos = !c.Pos
				return crcOK(&cc)
			})
			r.check(okv, rule, funcKey(f)+":corrupted-only-by-crc", p.Pos(instrPos(ret)), "a record is declared corrupted only when the stored and the computed checksum differ", "the segment iterator can declare a record corrupted without a checksum mismatch (e.g. on a header pattern): valid records are rejected and the rest of the segment is cut off by recovery")
		}
	}
	// the truncation is decided by the iterator's error alone: nothing else (the position of the segment, a flag, ...)
	// lets a damaged tail bypass it
	if trunc != nil && truncSite != nil && truncSite.Parent() == g {
		isIterErr := func(v ssa.Value) bool {
			for _, s := range sources(v) {
				if call, idx := callResult(s); call != nil && idx == 1 && calleeKey(&call.Call) == "(*pogreb.segmentIterator).next" {
					return true
				}
			}
			return false
		}
		if !skipsOnlyFrame(r, p, rule, funcKey(g)+":truncate-unconditional", g, truncSite, func(c *Cond) bool {
			if _, ok := c.holdsEq(); !ok || c.X == nil || c.Y == nil {
				return false
			}
			return isIterErr(c.X) || isIterErr(c.Y)
		}, "a condition other than the segment iterator's error lets a damaged tail (io.EOF / io.ErrUnexpectedEOF / errCorrupted) bypass the truncation: for such a segment the error is returned instead and the recovering Open fails on every restart") {
			r.ok(rule, funcKey(g)+":truncate-unconditional", p.Pos(trunc.Pos()), "whether a segment's tail is truncated depends only on the error its iterator returned", true)
		}
	}
	// after a truncation the iterator goes on with the next segment
	if trunc != nil {
		if ts, ok := truncSite.(*ssa.Call); ok {
			checkTailContinue(r, p, rule, g, ts)
		}
	}
}

// checkTailContinue explores recoveryIterator.next from the successful truncation with knowledge of the error variable's
// value along the path: no return may be reached other than "no more segments" or after moving to another segment.
func checkTailContinue(r *Run, p *Program, rule string, g *ssa.Function, trunc *ssa.Call) {
	type state struct {
		b     *ssa.BasicBlock
		i     int
		known string // global the tracked error value is known to equal ("" unknown)
		val   ssa.Value
	}
	type key struct {
		b     *ssa.BasicBlock
		i     int
		known string
	}
	seen := map[key]bool{}
	var work []state
	tb := trunc.Block()
	for i, in := range tb.Instrs {
		if in == ssa.Instruction(trunc) {
			work = append(work, state{tb, i + 1, "", nil})
		}
	}
	bad := false
	for len(work) > 0 {
		s := work[len(work)-1]
		work = work[:len(work)-1]
		k := key{s.b, s.i, s.known}
		if seen[k] {
			continue
		}
		seen[k] = true
		stop := false
		for i := s.i; i < len(s.b.Instrs) && !stop; i++ {
			switch x := s.b.Instrs[i].(type) {
			case *ssa.Call:
				ck := calleeKey(&x.Call)
				if ck == "pogreb.newSegmentIterator" || ck == "(*pogreb.segmentIterator).next" {
					stop = true // moved on: anything after is a new segment's business
				}
			case *ssa.Return:
				stop = true
				ev := strip(retOperand(x, len(x.Results)-1))
				if globalLoad(ev) == "pogreb.ErrIterationDone" {
					break // no more segments
				}
				if isFailureReturn(g, x) {
					// a genuine I/O error of truncate/stat is fine: only when the error is a call result under != nil
					if call, _ := callResult(ev); call != nil {
						break
					}
				}
				bad = true
				r.bad(rule, funcKey(g)+":continue-after-truncate", p.Pos(instrPos(x)), "after truncating a damaged tail the recovery iterator can return ("+instrString(x)+") instead of continuing with the next segment: every later segment is silently skipped (or Open fails)")
			case *ssa.If:
				for j, succ := range s.b.Succs {
					c := edgeCond(s.b, j)
					feasible := true
					if c != nil && s.known != "" && s.val != nil {
						if eq, ok := c.holdsEq(); ok {
							for _, pr := range [][2]ssa.Value{{c.X, c.Y}, {c.Y, c.X}} {
								if strip(pr[0]) != s.val {
									continue
								}
								if gl := globalLoad(pr[1]); gl != "" {
									feasible = (gl == s.known) == eq
								} else if isNilConst(pr[1]) {
									feasible = !eq // known non-nil
								}
							}
						}
					}
					// error edges of the truncate / stat calls themselves are failure paths
					if feasible {
						ns := state{succ, 0, s.known, s.val}
						// phi transfer
						for _, in := range succ.Instrs {
							ph, ok := in.(*ssa.Phi)
							if !ok {
								break
							}
							for pi, pb := range succ.Preds {
								if pb == s.b {
									if gl := globalLoad(ph.Edges[pi]); gl != "" {
										ns.known, ns.val = gl, ph
									} else if ph.Edges[pi] == s.val {
										ns.val = ph
									}
								}
							}
						}
						work = append(work, ns)
					}
				}
				stop = true
			case *ssa.Jump:
				succ := s.b.Succs[0]
				ns := state{succ, 0, s.known, s.val}
				for _, in := range succ.Instrs {
					ph, ok := in.(*ssa.Phi)
					if !ok {
						break
					}
					for pi, pb := range succ.Preds {
						if pb == s.b {
							if gl := globalLoad(ph.Edges[pi]); gl != "" {
								ns.known, ns.val = gl, ph
							} else if s.val != nil && ph.Edges[pi] == s.val {
								ns.val = ph
							}
						}
					}
				}
				work = append(work, ns)
				stop = true
			}
		}
	}
	if !bad {
		r.ok(rule, funcKey(g)+":continue-after-truncate", p.Pos(trunc.Pos()), "after a successful truncation every path moves on to the next segment or reports that no segment is left", true)
	}
}

// ---------- C18 ----------

func ruleC18Header(r *Run, p *Program, rule string) {
	checkConst(r, p, rule, "formatVersion", "2")
	checkConst(r, p, rule, "headerSize", "512")
	// signature bytes
	want := []string{"'p'", "'o'", "'g'", "'r'", "'e'", "'b'", `'\x0e'`, `'\xfd'`}
	found := false
	for _, f := range p.Main.Syntax {
		ast.Inspect(f, func(n ast.Node) bool {
			vs, ok := n.(*ast.ValueSpec)
			if !ok || len(vs.Names) != 1 || vs.Names[0].Name != "signature" || len(vs.Values) != 1 {
				return true
			}
			cl, ok := vs.Values[0].(*ast.CompositeLit)
			if !ok {
				return true
			}
			found = true
			var got []int64
			for _, e := range cl.Elts {
				tv := p.Main.TypesInfo.Types[e]
				if tv.Value != nil {
					v, _ := constant.Int64Val(tv.Value)
					got = append(got, v)
				}
			}
			exp := []int64{'p', 'o', 'g', 'r', 'e', 'b', 0x0e, 0xfd}
			okv := len(got) == len(exp)
			for i := range exp {
				if okv && got[i] != exp[i] {
					okv = false
				}
			}
			r.check(okv, rule, "var:signature", p.Pos(vs.Pos()), "file signature is "+strings.Join(want, " "), fmt.Sprintf("the file signature bytes are %v, the format's are %v", got, exp))
			return false
		})
	}
	r.anchor(rule, "package variable signature", found)
	if f := p.Fn("(pogreb.header).MarshalBinary"); r.anchor(rule, "(pogreb.header).MarshalBinary", f != nil) {
		compareLayoutNorm(r, p, rule, funcKey(f), f, specHeaderMarshal, nil)
		okLen := false
		instrsOf(f, func(in ssa.Instruction) {
			if a, ok := in.(*ssa.Alloc); ok {
				if arr, ok := derefType(a.Type()).Underlying().(*types.Array); ok && arr.Len() == 512 {
					okLen = true
				}
			}
		})
		r.check(okLen, rule, funcKey(f)+":size", p.Pos(f.Pos()), "the header occupies 512 bytes", "the header buffer is not 512 bytes")
	}
	if f := p.Fn("(*pogreb.header).UnmarshalBinary"); r.anchor(rule, "(*pogreb.header).UnmarshalBinary", f != nil) {
		compareLayoutNorm(r, p, rule, funcKey(f), f, specHeaderUnmarshal, nil)
		// a signature mismatch is an error
		okv := false
		for _, ret := range returnsOf(f) {
			if globalLoad(retOperand(ret, 0)) == "pogreb.errCorrupted" {
				okv = true
			}
		}
		r.check(okv, rule, funcKey(f)+":rejects", p.Pos(f.Pos()), "a wrong signature is rejected with errCorrupted", "a wrong file signature is not rejected")
	}
	// newHeader uses signature and formatVersion; every new file gets a header, every existing one is checked
	if f := p.Fn("pogreb.openFile"); r.anchor(rule, "pogreb.openFile", f != nil) {
		// the header writer / checker: the calls in openFile that reach (*header).MarshalBinary / UnmarshalBinary
		var wh, rh *ssa.Call
		reaches := func(g *ssa.Function, key string) bool {
			for _, h := range deepFuncs(p, g) {
				if funcKey(h) == key {
					return true
				}
			}
			return false
		}
		instrsOf(f, func(in ssa.Instruction) {
			if c, ok := in.(*ssa.Call); ok {
				g := c.Call.StaticCallee()
				if g == nil || g.Pkg != p.MainS {
					return
				}
				if reaches(g, "(pogreb.header).MarshalBinary") {
					wh = c
				}
				if reaches(g, "(*pogreb.header).UnmarshalBinary") {
					rh = c
				}
			}
		})
		if r.anchor(rule, "writeHeader/readHeader calls in openFile", wh != nil && rh != nil) {
			sizeZero := func(pos bool) func(c *Cond) bool {
				return func(c *Cond) bool {
					eq, ok := c.holdsEq()
					if !ok || eq != pos {
						return false
					}
					k, isk := constInt(c.Y)
					return isk && k == 0 && isFieldLoad(c.X, "pogreb.file.size")
				}
			}
			r.check(controlledBy(f, wh, sizeZero(true)) && controlledBy(f, rh, sizeZero(false)), rule, "pogreb.openFile:header", p.Pos(f.Pos()), "an empty file gets a header written, a non-empty file has its header checked", "openFile does not write a header into exactly the empty files and check it on exactly the non-empty ones")
			w := &Walk{Fn: f, Stop: func(in ssa.Instruction) bool { return in == ssa.Instruction(wh) || in == ssa.Instruction(rh) }}
			w.From()
			okv := true
			for _, ret := range returnsOf(f) {
				if w.succ(f, ret) {
					okv = false
				}
			}
			r.check(okv, rule, "pogreb.openFile:header-always", p.Pos(f.Pos()), "every successful openFile wrote or checked the header", "openFile can succeed without writing or checking the file header")
		}
	}
}

func ruleC18Bucket(r *Run, p *Program, rule string) {
	checkConst(r, p, rule, "bucketSize", "512")
	checkConst(r, p, rule, "slotsPerBucket", "31")
	if f := p.Fn("(pogreb.bucket).MarshalBinary"); r.anchor(rule, "(pogreb.bucket).MarshalBinary", f != nil) {
		compareLayoutNorm(r, p, rule, funcKey(f), f, specBucketMarshal, nil)
	}
	if f := p.Fn("(*pogreb.bucket).UnmarshalBinary"); r.anchor(rule, "(*pogreb.bucket).UnmarshalBinary", f != nil) {
		compareLayoutNorm(r, p, rule, funcKey(f), f, specBucketUnmarshal, nil)
	}
	// bucketOffset(i) = 512 + 512*i
	if f := p.Fn("pogreb.bucketOffset"); r.anchor(rule, "pogreb.bucketOffset", f != nil) {
		r.fn(funcKey(f))
		rets := returnsOf(f)
		okv := false
		got := "?"
		if len(rets) == 1 {
			if l := (&LinEnv{}).Eval(rets[0].Results[0]); l != nil {
				got = l.String()
				okv = got == "512*param:idx+512"
			}
		}
		r.check(okv, rule, "pogreb.bucketOffset", p.Pos(f.Pos()), "bucket i of the main index lives at 512 + 512*i", "bucketOffset(i) evaluates to "+got+", the format places bucket i at headerSize + bucketSize*i = 512*i+512")
	}
	// bucketHandle.read reads 512 bytes at its offset
	if f := p.Fn("(*pogreb.bucketHandle).read"); r.anchor(rule, "(*pogreb.bucketHandle).read", f != nil) {
		okv := false
		instrsOf(f, func(in ssa.Instruction) {
			c, ok := in.(*ssa.Call)
			if !ok || !isInvoke(&c.Call, "fs.File", "Slice") {
				return
			}
			a, b := c.Call.Args[0], c.Call.Args[1]
			la := (&LinEnv{Sym: func(v ssa.Value) string {
				if isFieldLoad(v, "pogreb.bucketHandle.offset") {
					return "off"
				}
				return ""
			}})
			x, y := la.Eval(a), la.Eval(b)
			okv = x != nil && y != nil && x.String() == "off" && y.String() == "off+512"
		})
		r.check(okv, rule, funcKey(f), p.Pos(f.Pos()), "a bucket is the 512 bytes at its offset", "bucketHandle.read does not read exactly [offset, offset+512)")
	}
}

func ruleC18Names(r *Run, p *Program, rule string) {
	for name, want := range map[string]string{
		"segmentExt": ".psg", "metaExt": ".pmt", "indexExt": ".pix", "indexMainName": "main.pix", "indexOverflowName": "overflow.pix",
		"indexMetaName": "index.pmt", "dbMetaName": "db.pmt", "lockName": "lock", "recoveryBackupExt": ".bac",
	} {
		checkConst(r, p, rule, name, want)
	}
	// segmentName: fmt.Sprintf("%05d-%d%s", id, sequenceID, segmentExt)
	if f := p.Fn("pogreb.segmentName"); r.anchor(rule, "pogreb.segmentName", f != nil) {
		r.fn(funcKey(f))
		okv := false
		got := ""
		instrsOf(f, func(in ssa.Instruction) {
			c, ok := in.(*ssa.Call)
			if !ok || calleeKey(&c.Call) != "fmt.Sprintf" {
				return
			}
			if k, ok := c.Call.Args[0].(*ssa.Const); ok {
				got = constant.StringVal(k.Value)
			}
		})
		okv = got == "%05d-%d%s"
		r.check(okv, rule, "pogreb.segmentName", p.Pos(f.Pos()), `segment files are named "%05d-%d.psg" (id, sequence id)`, "segment names are formatted with "+fmt.Sprintf("%q", got)+`, the format is "%05d-%d%s"`)
	}
	// parseSegmentName: split on "-", id base 10 / 16 bits, sequence base 10 / 64 bits, legacy name without sequence accepted
	if f := p.Fn("pogreb.parseSegmentName"); r.anchor(rule, "pogreb.parseSegmentName", f != nil) {
		r.fn(funcKey(f))
		var parses [][2]int64
		sep := ""
		instrsOf(f, func(in ssa.Instruction) {
			c, ok := in.(*ssa.Call)
			if !ok {
				return
			}
			switch calleeKey(&c.Call) {
			case "strconv.ParseUint":
				b, _ := constInt(c.Call.Args[1])
				w, _ := constInt(c.Call.Args[2])
				parses = append(parses, [2]int64{b, w})
			case "strings.SplitN":
				if k, ok := c.Call.Args[1].(*ssa.Const); ok {
					sep = constant.StringVal(k.Value)
				}
			}
		})
		okv := sep == "-" && len(parses) == 2 && parses[0] == [2]int64{10, 16} && parses[1] == [2]int64{10, 64}
		r.check(okv, rule, "pogreb.parseSegmentName", p.Pos(f.Pos()), `names are parsed as <id:base10,16bit>["-"<sequence:base10,64bit>]`, fmt.Sprintf("parseSegmentName parses with separator %q and (base,bits) %v; the format needs \"-\", (10,16), (10,64)", sep, parses))
		// the legacy form: a success return is reachable without the second ParseUint
		legacy := false
		w := &Walk{Fn: f, Stop: func(in ssa.Instruction) bool {
			c, ok := in.(*ssa.Call)
			return ok && calleeKey(&c.Call) == "strconv.ParseUint" && func() bool { wv, _ := constInt(c.Call.Args[2]); return wv == 64 }()
		}}
		w.From()
		for _, ret := range returnsOf(f) {
			if w.succ(f, ret) {
				legacy = true
			}
		}
		r.check(legacy, rule, "pogreb.parseSegmentName:legacy", p.Pos(f.Pos()), "legacy names without a sequence id (NNNNN.psg) are still accepted", "legacy segment names without a sequence id are no longer accepted")
	}
	// openDatalog only considers *.psg
	if f := p.Fn("pogreb.openDatalog"); r.anchor(rule, "pogreb.openDatalog", f != nil) {
		oss := findWorkDeep(p, f, func(in ssa.Instruction) bool {
			c, ok := in.(*ssa.Call)
			return ok && calleeKey(&c.Call) == "(*pogreb.datalog).openSegment"
		})
		// only the opens of directory entries (swapSegment's creation of a new segment is not part of the scan)
		{
			var scan []Node
			for _, nd := range oss {
				c := nd.In.(*ssa.Call)
				isScan := false
				for _, a := range logicalArgs(&c.Call) {
					if b, ok := a.T.Underlying().(*types.Basic); ok && b.Kind() == types.String && a.V != nil && nameAbs(nd.Ctx, a.V, 0) == "DIRENT" {
						isScan = true
					}
					// a parameter object that is not a literal here (e.g. returned by the name parser): its string fields
					if st, ok := a.T.Underlying().(*types.Struct); ok && a.V != nil {
						for i := 0; i < st.NumFields(); i++ {
							if b, ok := st.Field(i).Type().Underlying().(*types.Basic); ok && b.Kind() == types.String {
								if fv := structFieldValue(nd.Ctx, a.V, i); fv.v != nil && nameAbs(fv.ctx, fv.v, 0) == "DIRENT" {
									isScan = true
								}
							}
						}
					}
				}
				if isScan {
					scan = append(scan, nd)
				}
			}
			oss = scan
		}
		if r.anchor(rule, "openSegment call in openDatalog", len(oss) > 0) {
			for _, nd := range oss {
				checkSkipsDeepContinue(r, p, rule, "pogreb.openDatalog:opens-all-segments", nd, func(c *Cond) bool {
					eq, ok := c.holdsEq()
					if !ok || eq {
						return false
					}
					for _, v := range []ssa.Value{c.X, c.Y} {
						if k, ok := v.(*ssa.Const); ok && k.Value != nil && k.Value.Kind() == constant.String && constant.StringVal(k.Value) == ".psg" {
							return true
						}
					}
					return false
				}, "every directory entry with extension .psg is opened as a segment", "openDatalog skips a *.psg file for a reason other than its extension")
			}
		}
	}
}

func ruleC18Gob(r *Run, p *Program, rule string) {
	want := map[string][]string{
		"indexMeta":   {"Level uint8", "NumKeys uint32", "NumBuckets uint32", "SplitBucketIndex uint32", "FreeOverflowBuckets []int64"},
		"dbMeta":      {"HashSeed uint32"},
		"segmentMeta": {"Full bool", "PutRecords uint32", "DeleteRecords uint32", "DeletedKeys uint32", "DeletedBytes uint32"},
	}
	for tn, fields := range want {
		n := p.NamedType(p.Main, tn)
		if !r.anchor(rule, "type "+tn, n != nil) {
			continue
		}
		st, _ := n.Underlying().(*types.Struct)
		have := map[string]bool{}
		if st != nil {
			for i := 0; i < st.NumFields(); i++ {
				have[st.Field(i).Name()+" "+st.Field(i).Type().String()] = true
			}
		}
		for _, f := range fields {
			r.check(have[f], rule, "gob:"+tn+"."+strings.Fields(f)[0], p.Pos(n.Obj().Pos()), "persisted field "+f+" present", "the gob-encoded metadata type "+tn+" no longer has field '"+f+"': metadata written by the pinned version is silently dropped or fails to decode")
		}
	}
	// slot struct (index) field types
	if n := p.NamedType(p.Main, "slot"); r.anchor(rule, "type slot", n != nil) {
		st := n.Underlying().(*types.Struct)
		var got []string
		for i := 0; i < st.NumFields(); i++ {
			got = append(got, st.Field(i).Name()+" "+st.Field(i).Type().String())
		}
		wantS := "hash uint32,segmentID uint16,keySize uint16,valueSize uint32,offset uint32"
		r.check(strings.Join(got, ",") == wantS, rule, "type:slot", p.Pos(n.Obj().Pos()), "slot fields: "+wantS, "slot fields are "+strings.Join(got, ",")+", the format needs "+wantS)
	}
	// hash function constants (MurmurHash3 x86_32) - the persisted index is addressed by it
	for name, want := range map[string]string{"c1": "3432918353", "c2": "461845907"} {
		for _, pk := range p.Pkgs {
			if pk.PkgPath != modPath+"/internal/hash" {
				continue
			}
			c, ok := pk.Types.Scope().Lookup(name).(*types.Const)
			if r.anchor(rule, "hash constant "+name, ok) {
				r.check(c.Val().ExactString() == want, rule, "hash:"+name, p.Pos(c.Pos()), "MurmurHash3 constant "+name, "hash constant "+name+" changed: every persisted index is addressed with a different hash")
			}
		}
	}
}

func hasFieldLoad(v ssa.Value, qual string) bool {
	if v == nil {
		return false
	}
	switch x := v.(type) {
	case *ssa.BinOp:
		return hasFieldLoad(x.X, qual) || hasFieldLoad(x.Y, qual)
	case *ssa.Convert:
		return hasFieldLoad(x.X, qual)
	}
	return isFieldLoad(v, qual)
}
