package main

import (
	"fmt"
	"go/constant"
	"go/token"
	"go/types"
	"strings"

	"golang.org/x/tools/go/ssa"
)

// ---------- basic accessors ----------

func callOf(in ssa.Instruction) *ssa.CallCommon {
	switch c := in.(type) {
	case *ssa.Call:
		return &c.Call
	case *ssa.Defer:
		return &c.Call
	case *ssa.Go:
		return &c.Call
	}
	return nil
}

// calleeKey returns the key of the statically known callee ("" when dynamic).
func calleeKey(c *ssa.CallCommon) string {
	if c == nil {
		return ""
	}
	if f := c.StaticCallee(); f != nil {
		if f.Origin() != nil {
			f = f.Origin()
		}
		return funcKey(f)
	}
	if c.IsInvoke() {
		if f := devirt[c.Method]; f != nil {
			return funcKey(f)
		}
	}
	return ""
}

// isInvoke reports whether c is an interface method call of method `name` on interface type named ifacePkg.ifaceName
// ("" ifaceName matches any interface).
func isInvoke(c *ssa.CallCommon, ifaceName, name string) bool {
	if c == nil || !c.IsInvoke() || c.Method.Name() != name {
		return false
	}
	if ifaceName == "" {
		return true
	}
	return typeName(c.Value.Type()) == ifaceName
}

// typeName renders a (possibly pointer to) named type as "pkgname.Name" using short module names.
func typeName(t types.Type) string {
	star := ""
	if p, ok := t.(*types.Pointer); ok {
		t = p.Elem()
		star = "*"
	}
	if a, ok := t.(*types.Alias); ok {
		t = types.Unalias(a)
	}
	n, ok := t.(*types.Named)
	if !ok {
		return star + t.String()
	}
	pk := ""
	if n.Obj().Pkg() != nil {
		pk = n.Obj().Pkg().Path()
		switch {
		case pk == modPath:
			pk = "pogreb"
		case pk == fsPath:
			pk = "fs"
		case strings.HasPrefix(pk, modPath+"/"):
			pk = strings.TrimPrefix(pk, modPath+"/")
		}
		pk += "."
	}
	if a, ok := typeAlias[pk+n.Obj().Name()]; ok {
		return star + a
	}
	return star + pk + n.Obj().Name()
}

// fieldOfAddr returns "Type.field" for a FieldAddr / Field instruction value.
func fieldName(v ssa.Value) string {
	switch f := v.(type) {
	case *ssa.FieldAddr:
		st := derefStruct(f.X.Type())
		if st == nil {
			return ""
		}
		tn := typeName(derefType(f.X.Type()))
		return qualifiedField(tn, st.Field(f.Field).Name())
	case *ssa.Field:
		st, _ := f.X.Type().Underlying().(*types.Struct)
		if st == nil {
			return ""
		}
		tn := typeName(f.X.Type())
		return qualifiedField(tn, st.Field(f.Field).Name())
	}
	return ""
}

func derefType(t types.Type) types.Type {
	if p, ok := t.Underlying().(*types.Pointer); ok {
		return p.Elem()
	}
	return t
}

func derefStruct(t types.Type) *types.Struct {
	st, _ := derefType(t).Underlying().(*types.Struct)
	return st
}

// ---------- value origins ----------

// strip removes value-preserving wrappers.
func strip(v ssa.Value) ssa.Value {
	for {
		switch x := v.(type) {
		case *ssa.ChangeType:
			v = x.X
		case *ssa.MakeInterface:
			v = x.X
		case *ssa.ChangeInterface:
			v = x.X
		default:
			return v
		}
	}
}

// allocStores returns the values stored directly into the cell `a` (an Alloc, or a FreeVar cell resolved by the caller).
func allocStores(a ssa.Value) []ssa.Value {
	var out []ssa.Value
	refs := a.Referrers()
	if refs == nil {
		return nil
	}
	for _, r := range *refs {
		if st, ok := r.(*ssa.Store); ok && st.Addr == a {
			out = append(out, st.Val)
		}
		// the cell is captured by a closure: what the closure (and closures nested in it) store into it
		if mc, ok := r.(*ssa.MakeClosure); ok {
			if fn, ok := mc.Fn.(*ssa.Function); ok {
				for i, b := range mc.Bindings {
					if b == a && i < len(fn.FreeVars) {
						out = append(out, allocStores(fn.FreeVars[i])...)
					}
				}
			}
		}
	}
	return out
}

// sources expands v through phis, loads of local allocs (all stores), and strips wrappers.
// It returns the set of "root" values. Bounded.
func sources(v ssa.Value) []ssa.Value {
	seen := map[ssa.Value]bool{}
	var out []ssa.Value
	var rec func(v ssa.Value, d int)
	rec = func(v ssa.Value, d int) {
		v = strip(v)
		if v == nil || seen[v] || d > 40 {
			return
		}
		seen[v] = true
		switch x := v.(type) {
		case *ssa.Phi:
			for _, e := range x.Edges {
				rec(e, d+1)
			}
		case *ssa.UnOp:
			if x.Op == token.MUL {
				if a, ok := x.X.(*ssa.Alloc); ok {
					st := allocStores(a)
					if len(st) > 0 {
						for _, s := range st {
							rec(s, d+1)
						}
						return
					}
				}
			}
			out = append(out, v)
		default:
			out = append(out, v)
		}
	}
	rec(v, 0)
	return out
}

// callResult reports whether v is result #idx of a call (idx -1: the single result) and returns the call.
func callResult(v ssa.Value) (*ssa.Call, int) {
	v = strip(v)
	switch x := v.(type) {
	case *ssa.Extract:
		if c, ok := x.Tuple.(*ssa.Call); ok {
			return c, x.Index
		}
	case *ssa.Call:
		return x, -1
	}
	return nil, 0
}

// boolFromCall: v is a boolean produced by a call of the function with the given key: a boolean result of its tuple,
// or a boolean field of a struct it returns.
func boolFromCall(v ssa.Value, key string) bool {
	return boolFromCallPred(v, func(c *ssa.Call) bool { return calleeKey(&c.Call) == key })
}

// boolFromCallPred is boolFromCall for the calls satisfying pred.
func boolFromCallPred(v ssa.Value, pred func(c *ssa.Call) bool) bool {
	v = strip(v)
	if b, ok := v.Type().Underlying().(*types.Basic); !ok || b.Kind() != types.Bool {
		return false
	}
	for d := 0; d < 4; d++ {
		switch x := v.(type) {
		case *ssa.Extract:
			c, ok := x.Tuple.(*ssa.Call)
			return ok && pred(c)
		case *ssa.Call:
			return pred(x)
		case *ssa.Field:
			v = strip(x.X)
		case *ssa.UnOp:
			// load of a field of a local struct into which the call's result was stored
			if x.Op != token.MUL {
				return false
			}
			base := x.X
			for {
				if fa, ok := base.(*ssa.FieldAddr); ok {
					base = fa.X
					continue
				}
				break
			}
			al, ok := base.(*ssa.Alloc)
			if !ok || al.Referrers() == nil {
				return false
			}
			var src ssa.Value
			for _, u := range *al.Referrers() {
				if st, ok := u.(*ssa.Store); ok && st.Addr == ssa.Value(al) {
					if src != nil {
						return false
					}
					src = st.Val
				}
			}
			if src == nil {
				return false
			}
			v = strip(src)
		default:
			return false
		}
	}
	return false
}

// boolFlagOfReturn finds the boolean a return hands back - a boolean result, or the single boolean field of a struct
// result built by a composite literal - and its constant value when it has one.
func boolFlagOfReturn(ret *ssa.Return) (val, isConst, found bool) {
	isBool := func(t types.Type) bool {
		b, ok := t.Underlying().(*types.Basic)
		return ok && b.Kind() == types.Bool
	}
	for i := range ret.Results {
		v := retOperand(ret, i)
		if isBool(v.Type()) {
			bv, ok := constBool(v)
			return bv, ok, true
		}
		st, ok := v.Type().Underlying().(*types.Struct)
		if !ok {
			continue
		}
		idx := -1
		for j := 0; j < st.NumFields(); j++ {
			if isBool(st.Field(j).Type()) {
				if idx >= 0 {
					idx = -2
					break
				}
				idx = j
			}
		}
		if idx < 0 {
			continue
		}
		sv := strip(v)
		if k, ok := sv.(*ssa.Const); ok && k.Value == nil {
			return false, true, true // zero value
		}
		ld, ok := sv.(*ssa.UnOp)
		if !ok || ld.Op != token.MUL {
			return false, false, true
		}
		al, ok := ld.X.(*ssa.Alloc)
		if !ok || al.Referrers() == nil {
			return false, false, true
		}
		var vals []ssa.Value
		whole := false
		for _, u := range *al.Referrers() {
			switch x := u.(type) {
			case *ssa.FieldAddr:
				if x.Field != idx || x.Referrers() == nil {
					continue
				}
				for _, w := range *x.Referrers() {
					if s, ok := w.(*ssa.Store); ok {
						vals = append(vals, s.Val)
					} else {
						whole = true
					}
				}
			case *ssa.Store:
				if x.Addr == ssa.Value(al) {
					whole = true
				}
			case *ssa.UnOp:
			default:
				whole = true
			}
		}
		if whole || len(vals) > 1 {
			return false, false, true
		}
		if len(vals) == 0 {
			return false, true, true // field left at its zero value
		}
		bv, ok := constBool(vals[0])
		return bv, ok, true
	}
	return false, false, false
}

func isNilConst(v ssa.Value) bool {
	c, ok := v.(*ssa.Const)
	return ok && c.IsNil()
}

func constBool(v ssa.Value) (bool, bool) {
	c, ok := v.(*ssa.Const)
	if !ok || c.Value == nil || c.Value.Kind() != constant.Bool {
		return false, false
	}
	return constant.BoolVal(c.Value), true
}

func constInt(v ssa.Value) (int64, bool) {
	c, ok := v.(*ssa.Const)
	if !ok || c.Value == nil || c.Value.Kind() != constant.Int {
		return 0, false
	}
	i, ok := constant.Int64Val(c.Value)
	return i, ok
}

// globalLoad returns the name of the package-level variable loaded by v ("" otherwise).
func globalLoad(v ssa.Value) string {
	u, ok := strip(v).(*ssa.UnOp)
	if !ok || u.Op != token.MUL {
		return ""
	}
	g, ok := u.X.(*ssa.Global)
	if !ok {
		return ""
	}
	pk := ""
	if g.Pkg != nil {
		pk = g.Pkg.Pkg.Name() + "."
	}
	return pk + g.Name()
}

func isErrorType(t types.Type) bool {
	return t.String() == "error"
}

// ---------- conditions on edges ----------

// Cond describes the condition under which edge (b -> b.Succs[k]) is taken, after removing negations.
type Cond struct {
	V    ssa.Value   // the compared / tested value after normalisation
	Op   token.Token // EQL, NEQ, LSS..., or ILLEGAL for a plain boolean
	X, Y ssa.Value
	Pos  bool // polarity: the edge is taken when the (normalised) condition is true
	If   *ssa.If
}

// edgeCond returns the condition of edge k of block b (nil if b does not end in If).
func edgeCond(b *ssa.BasicBlock, k int) *Cond {
	if len(b.Instrs) == 0 {
		return nil
	}
	iff, ok := b.Instrs[len(b.Instrs)-1].(*ssa.If)
	if !ok {
		return nil
	}
	pos := k == 0
	v := iff.Cond
	for {
		if u, ok := v.(*ssa.UnOp); ok && u.Op == token.NOT {
			v = u.X
			pos = !pos
			continue
		}
		break
	}
	c := &Cond{V: v, Pos: pos, If: iff}
	if bo, ok := v.(*ssa.BinOp); ok {
		switch bo.Op {
		case token.EQL, token.NEQ, token.LSS, token.LEQ, token.GTR, token.GEQ:
			c.Op, c.X, c.Y = bo.Op, bo.X, bo.Y
		}
	}
	return c
}

// condOfValue builds the condition "v is pos" for a boolean value (negations folded, comparisons opened up).
func condOfValue(v ssa.Value, pos bool) *Cond {
	for {
		if u, ok := v.(*ssa.UnOp); ok && u.Op == token.NOT {
			v = u.X
			pos = !pos
			continue
		}
		break
	}
	c := &Cond{V: v, Pos: pos}
	if bo, ok := v.(*ssa.BinOp); ok {
		switch bo.Op {
		case token.EQL, token.NEQ, token.LSS, token.LEQ, token.GTR, token.GEQ:
			c.Op, c.X, c.Y = bo.Op, bo.X, bo.Y
		}
	}
	return c
}

// returnsOnlyUnder: the predicate function g returns `want` only where pred holds: a constant `want` is returned
// only behind an edge satisfying pred, and a computed result, when it equals `want`, is itself a condition
// satisfying pred (short-circuit && / || chains are phis of both kinds).
func returnsOnlyUnder(g *ssa.Function, want bool, pred func(c *Cond) bool) bool {
	if g == nil || g.Blocks == nil || g.Signature.Results().Len() != 1 || !isBoolType(g.Signature.Results().At(0).Type()) {
		return false
	}
	var okVal func(v ssa.Value, at ssa.Instruction, viaBlock *ssa.BasicBlock, viaEdge int, d int) bool
	okVal = func(v ssa.Value, at ssa.Instruction, viaBlock *ssa.BasicBlock, viaEdge int, d int) bool {
		if d > 6 {
			return false
		}
		v = strip(v)
		if bv, isc := constBool(v); isc {
			if bv != want {
				return true
			}
			// the constant is produced on this path: the path must lie behind pred
			if viaBlock != nil {
				if c := edgeCond(viaBlock, viaEdge); c != nil && pred(c) {
					return true
				}
				if len(viaBlock.Instrs) > 0 && controlledBy(g, viaBlock.Instrs[0], pred) {
					return true
				}
				return false
			}
			return controlledBy(g, at, pred)
		}
		if ph, ok := v.(*ssa.Phi); ok {
			for i, e := range ph.Edges {
				pb := ph.Block().Preds[i]
				k := 0
				for j, s := range pb.Succs {
					if s == ph.Block() {
						k = j
					}
				}
				if !okVal(e, at, pb, k, d+1) {
					return false
				}
			}
			return true
		}
		// a computed boolean: when it equals want, it must itself be an accepted condition - or sit behind one
		if pred(condOfValue(v, want)) {
			return true
		}
		if in, ok := v.(ssa.Instruction); ok && controlledBy(g, in, pred) {
			return true
		}
		return false
	}
	rets := returnsOf(g)
	if len(rets) == 0 {
		return false
	}
	for _, ret := range rets {
		if !okVal(retOperand(ret, 0), ret, nil, 0, 0) {
			return false
		}
	}
	return true
}

// holdsEq reports whether on this edge "X == Y" holds (true) or "X != Y" holds (false); ok=false if not an (in)equality.
func (c *Cond) holdsEq() (eq bool, ok bool) {
	switch c.Op {
	case token.EQL:
		return c.Pos, true
	case token.NEQ:
		return !c.Pos, true
	}
	return false, false
}

func (c *Cond) String(p *Program) string {
	pol := "true"
	if !c.Pos {
		pol = "false"
	}
	return fmt.Sprintf("%s: [%s] is %s", p.Pos(c.If.Cond.Pos()), valString(c.V), pol)
}

// valString renders a value compactly for witnesses.
func valString(v ssa.Value) string {
	switch x := v.(type) {
	case *ssa.BinOp:
		return valString(x.X) + " " + x.Op.String() + " " + valString(x.Y)
	case *ssa.Const:
		if x.IsNil() {
			return "nil"
		}
		if x.Value == nil {
			return "zero"
		}
		return x.Value.String()
	case *ssa.Extract:
		if c, ok := x.Tuple.(*ssa.Call); ok {
			return fmt.Sprintf("%s#%d", callString(&c.Call), x.Index)
		}
	case *ssa.Call:
		return callString(&x.Call)
	case *ssa.UnOp:
		if x.Op == token.MUL {
			if g := globalLoad(x); g != "" {
				return g
			}
			if fn := fieldName(x.X); fn != "" {
				return fn
			}
			return "*" + valString(x.X)
		}
		return x.Op.String() + valString(x.X)
	case *ssa.FieldAddr, *ssa.Field:
		return fieldName(x)
	case *ssa.Parameter:
		return x.Name()
	case *ssa.FreeVar:
		return x.Name()
	case *ssa.Phi:
		return "phi(" + x.Comment + ")"
	case *ssa.Convert:
		return typeName(x.Type()) + "(" + valString(x.X) + ")"
	case *ssa.ChangeType:
		return valString(x.X)
	case *ssa.Alloc:
		return "&" + x.Comment
	case *ssa.IndexAddr:
		return valString(x.X) + "[...]"
	}
	return v.Name()
}

func callString(c *ssa.CallCommon) string {
	if c.IsInvoke() && devirt[c.Method] != nil {
		return funcKey(devirt[c.Method]) + "()"
	}
	if c.IsInvoke() {
		return typeName(c.Value.Type()) + "." + c.Method.Name() + "()"
	}
	if k := calleeKey(c); k != "" {
		return k + "()"
	}
	return "call " + valString(c.Value) + "()"
}

// ---------- path search ----------

// Walk explores the instruction-level CFG of one function.
type Walk struct {
	Fn *ssa.Function
	// Stop: the walk does not continue past an instruction for which Stop returns true (the instruction is still visited).
	Stop func(in ssa.Instruction) bool
	// SkipEdge: edge b -> b.Succs[k] is not followed.
	SkipEdge func(b *ssa.BasicBlock, k int) bool
	// InitFacts: what is assumed about error values at the start instructions.
	InitFacts facts

	visitedBlockEntry map[*ssa.BasicBlock]bool
	parent            map[*ssa.BasicBlock]edge // how a block entry was first reached
	Visited           map[ssa.Instruction]bool
	// SuccessVisited: the Return was reached on a path on which its error result is not known to be non-nil
	SuccessVisited map[*ssa.Return]bool
	startBlock     map[*ssa.BasicBlock]bool
}

// succ reports whether ret is reachable in this walk as a return that can report success.
func (w *Walk) succ(fn *ssa.Function, ret *ssa.Return) bool {
	return w.Visited[ret] && w.SuccessVisited[ret] && !isFailureReturn(fn, ret)
}

type edge struct {
	from *ssa.BasicBlock
	k    int
}

// From explores all instructions reachable strictly after the given instructions (or from function entry if starts is nil).
// The exploration is sensitive to nil-tests of error values along the path (see facts.go).
func (w *Walk) From(starts ...ssa.Instruction) {
	w.visitedBlockEntry = map[*ssa.BasicBlock]bool{}
	w.parent = map[*ssa.BasicBlock]edge{}
	w.Visited = map[ssa.Instruction]bool{}
	w.SuccessVisited = map[*ssa.Return]bool{}
	w.startBlock = map[*ssa.BasicBlock]bool{}
	type item struct {
		b *ssa.BasicBlock
		i int
		f facts
	}
	type vkey struct {
		b *ssa.BasicBlock
		f facts
	}
	seen := map[vkey]bool{}
	var work []item
	if len(starts) == 0 {
		if len(w.Fn.Blocks) == 0 {
			return
		}
		w.visitedBlockEntry[w.Fn.Blocks[0]] = true
		w.startBlock[w.Fn.Blocks[0]] = true
		work = append(work, item{w.Fn.Blocks[0], 0, ""})
	}
	for _, s := range starts {
		b := s.Block()
		for i, in := range b.Instrs {
			if in == s {
				work = append(work, item{b, i + 1, w.InitFacts})
				w.startBlock[b] = true
			}
		}
	}
	for len(work) > 0 {
		it := work[len(work)-1]
		work = work[:len(work)-1]
		stopped := false
		f := it.f
		for i := it.i; i < len(it.b.Instrs); i++ {
			in := it.b.Instrs[i]
			w.Visited[in] = true
			if ret, ok := in.(*ssa.Return); ok {
				fail := false
				if idx := errResultIndex(w.Fn); idx >= 0 && idx < len(ret.Results) {
					if kn, isNil := f.known(retOperand(ret, idx)); kn && !isNil {
						fail = true
					}
				}
				if !fail {
					w.SuccessVisited[ret] = true
				}
			}
			if w.Stop != nil && w.Stop(in) {
				stopped = true
				break
			}
			f = f.afterInstr(in)
		}
		if stopped {
			continue
		}
		for k, s := range it.b.Succs {
			if w.SkipEdge != nil && w.SkipEdge(it.b, k) {
				continue
			}
			if !f.feasible(it.b, k) {
				continue
			}
			nf := f.afterEdge(it.b, k)
			vk := vkey{s, nf}
			if seen[vk] {
				continue
			}
			seen[vk] = true
			if !w.visitedBlockEntry[s] {
				w.visitedBlockEntry[s] = true
				w.parent[s] = edge{it.b, k}
			}
			work = append(work, item{s, 0, nf})
		}
	}
}

// PathTo renders the branch decisions on the discovered path to the block of instruction `in`.
func (w *Walk) PathTo(p *Program, in ssa.Instruction) []string {
	var rev []string
	b := in.Block()
	seen := map[*ssa.BasicBlock]bool{}
	for {
		e, ok := w.parent[b]
		if !ok || seen[b] {
			break
		}
		seen[b] = true
		if c := edgeCond(e.from, e.k); c != nil {
			rev = append(rev, c.String(p))
		}
		b = e.from
	}
	out := make([]string, 0, len(rev)+1)
	for i := len(rev) - 1; i >= 0; i-- {
		out = append(out, rev[i])
	}
	out = append(out, fmt.Sprintf("%s: reaches %s", p.Pos(instrPos(in)), instrString(in)))
	return out
}

func instrPos(in ssa.Instruction) token.Pos {
	if in.Pos().IsValid() {
		return in.Pos()
	}
	// fall back to the position of a neighbouring instruction
	b := in.Block()
	for _, x := range b.Instrs {
		if x.Pos().IsValid() {
			return x.Pos()
		}
	}
	return token.NoPos
}

func instrString(in ssa.Instruction) string {
	switch x := in.(type) {
	case *ssa.Return:
		var rs []string
		for i := range x.Results {
			rs = append(rs, valString(retOperand(x, i)))
		}
		return "return " + strings.Join(rs, ", ")
	case *ssa.Call:
		return callString(&x.Call)
	case *ssa.Defer:
		return "defer " + callString(&x.Call)
	case *ssa.Store:
		return "store " + valString(x.Addr) + " = " + valString(x.Val)
	case *ssa.Panic:
		return "panic"
	}
	return in.String()
}

// edgeDominates reports whether every path from entry to `target` uses edge b->Succs[k].
func edgeDominates(fn *ssa.Function, b *ssa.BasicBlock, k int, target ssa.Instruction) bool {
	w := &Walk{Fn: fn, SkipEdge: func(x *ssa.BasicBlock, j int) bool { return x == b && j == k }}
	w.From()
	return !w.Visited[target]
}

// controlledBy reports whether `target` is reachable only through an edge satisfying pred.
func controlledBy(fn *ssa.Function, target ssa.Instruction, pred func(c *Cond) bool) bool {
	w := &Walk{Fn: fn, SkipEdge: func(b *ssa.BasicBlock, k int) bool {
		c := edgeCond(b, k)
		return c != nil && pred(c)
	}}
	w.From()
	return !w.Visited[target]
}

// instrsOf iterates over all instructions of a function.
func instrsOf(fn *ssa.Function, f func(in ssa.Instruction)) {
	for _, b := range fn.Blocks {
		for _, in := range b.Instrs {
			f(in)
		}
	}
}

// inCycle reports whether block b can reach itself.
func inCycle(b *ssa.BasicBlock) bool {
	seen := map[*ssa.BasicBlock]bool{}
	var stack []*ssa.BasicBlock
	stack = append(stack, b.Succs...)
	for len(stack) > 0 {
		x := stack[len(stack)-1]
		stack = stack[:len(stack)-1]
		if x == b {
			return true
		}
		if seen[x] {
			continue
		}
		seen[x] = true
		stack = append(stack, x.Succs...)
	}
	return false
}

// returnsOf lists the Return instructions of fn.
func returnsOf(fn *ssa.Function) []*ssa.Return {
	var out []*ssa.Return
	instrsOf(fn, func(in ssa.Instruction) {
		if r, ok := in.(*ssa.Return); ok {
			out = append(out, r)
		}
	})
	return out
}

// errResultIndex returns the index of the last result if it is of type error, else -1.
func errResultIndex(fn *ssa.Function) int {
	res := fn.Signature.Results()
	if res.Len() == 0 {
		return -1
	}
	if isErrorType(res.At(res.Len() - 1).Type()) {
		return res.Len() - 1
	}
	return -1
}

// errNonNilEdge reports whether the condition says "e != nil" holds for an error value e on this edge; returns e.
func errNonNilEdge(c *Cond) ssa.Value {
	eq, ok := c.holdsEq()
	if !ok || eq {
		return nil
	}
	if isNilConst(c.Y) && isErrorType(c.X.Type()) {
		return c.X
	}
	if isNilConst(c.X) && isErrorType(c.Y.Type()) {
		return c.Y
	}
	return nil
}

func errNilEdge(c *Cond) ssa.Value {
	eq, ok := c.holdsEq()
	if !ok || !eq {
		return nil
	}
	if isNilConst(c.Y) && isErrorType(c.X.Type()) {
		return c.X
	}
	if isNilConst(c.X) && isErrorType(c.Y.Type()) {
		return c.Y
	}
	return nil
}

// retOperand returns the idx-th returned value, looking through the result cells go/ssa introduces in functions
// with defers (store to the cell, RunDefers, load, return).
func retOperand(ret *ssa.Return, idx int) ssa.Value {
	v := ret.Results[idx]
	u, ok := v.(*ssa.UnOp)
	if !ok || u.Op != token.MUL {
		return v
	}
	a, ok := u.X.(*ssa.Alloc)
	if !ok {
		return v
	}
	if cellWrittenByClosure(a) {
		return v // a (deferred) closure may replace the result after the store: only the path facts know the final value
	}
	// the closest preceding store to the cell in the same block, else the unique store
	b := ret.Block()
	var last ssa.Value
	for _, in := range b.Instrs {
		if in == ssa.Instruction(u) {
			break
		}
		if st, ok := in.(*ssa.Store); ok && st.Addr == ssa.Value(a) {
			last = st.Val
		}
	}
	if last != nil {
		return last
	}
	// look in the unique predecessor chain
	for pb := b; len(pb.Preds) == 1; {
		pb = pb.Preds[0]
		for i := len(pb.Instrs) - 1; i >= 0; i-- {
			if st, ok := pb.Instrs[i].(*ssa.Store); ok && st.Addr == ssa.Value(a) {
				return st.Val
			}
		}
	}
	if st := allocStores(a); len(st) == 1 {
		return st[0]
	}
	return v
}

// isFailureReturn reports whether the error result of ret is provably non-nil:
// a freshly constructed error, a package-level error variable, or a value e reachable only under "e != nil".
func isFailureReturn(fn *ssa.Function, ret *ssa.Return) bool {
	idx := errResultIndex(fn)
	if idx < 0 || idx >= len(ret.Results) {
		return false
	}
	return provablyNonNil(fn, retOperand(ret, idx), ret)
}

// isNilReturn reports whether the error result of ret is the constant nil.
func isNilReturn(fn *ssa.Function, ret *ssa.Return) bool {
	idx := errResultIndex(fn)
	if idx < 0 || idx >= len(ret.Results) {
		return false
	}
	return isNilConst(strip(retOperand(ret, idx)))
}

func provablyNonNil(fn *ssa.Function, v ssa.Value, at ssa.Instruction) bool {
	v = strip(v)
	if isNilConst(v) {
		return false
	}
	if g := globalLoad(v); g != "" {
		return true // errFull, errCorrupted, ErrIterationDone, io.EOF ... sentinel variables
	}
	if c, ok := v.(*ssa.Call); ok {
		switch calleeKey(&c.Call) {
		case "internal/errors.Wrap", "internal/errors.Wrapf", "internal/errors.New", "errors.New", "fmt.Errorf":
			return true
		}
	}
	if _, ok := v.(*ssa.MakeInterface); ok {
		return true
	}
	// the result of a helper (function or local closure) every return of which hands back something provably
	// non-nil there, or one of its parameters whose argument is provably non-nil here
	if c, idx := callResult(v); c != nil {
		if g := c.Call.StaticCallee(); g != nil && g.Blocks != nil && g != fn && (g.Parent() != nil || g.Pkg != nil && strings.HasPrefix(g.Pkg.Pkg.Path(), modPath)) {
			if idx < 0 {
				idx = 0
			}
			rets := returnsOf(g)
			okAll := len(rets) > 0
			for _, ret := range rets {
				if idx >= len(ret.Results) {
					okAll = false
					break
				}
				o := strip(retOperand(ret, idx))
				if pa, isp := o.(*ssa.Parameter); isp {
					i := paramIndex(pa)
					if i < 0 || i >= len(c.Call.Args) || !provablyNonNil(fn, c.Call.Args[i], c) {
						okAll = false
					}
					continue
				}
				if _, isCall := o.(*ssa.Call); isCall {
					if cc, _ := callResult(o); cc != nil && cc.Call.StaticCallee() != nil && cc.Call.StaticCallee().Blocks != nil {
						okAll = false // no recursion into further helpers
						continue
					}
				}
				if !provablyNonNil(g, o, ret) {
					okAll = false
				}
			}
			if okAll {
				return true
			}
		}
	}
	// reachable only under v != nil
	if controlledBy(fn, at, func(c *Cond) bool { e := errNonNilEdge(c); return e != nil && strip(e) == v }) {
		return true
	}
	// loads of a local variable: every load site dominated by a non-nil test of another load of the same cell is
	// not tracked; phis: all edges provably non-nil
	if ph, ok := v.(*ssa.Phi); ok {
		for _, e := range ph.Edges {
			if !provablyNonNil(fn, e, at) {
				return false
			}
		}
		return true
	}
	return false
}

// cellWrittenByClosure reports whether a closure created in the cell's function stores into the cell.
func cellWrittenByClosure(a *ssa.Alloc) bool {
	refs := a.Referrers()
	if refs == nil {
		return false
	}
	for _, rf := range *refs {
		mc, ok := rf.(*ssa.MakeClosure)
		if !ok {
			continue
		}
		fn, ok := mc.Fn.(*ssa.Function)
		if !ok {
			continue
		}
		for i, b := range mc.Bindings {
			if b != ssa.Value(a) || i >= len(fn.FreeVars) {
				continue
			}
			fv := fn.FreeVars[i]
			if fv.Referrers() == nil {
				continue
			}
			for _, u := range *fv.Referrers() {
				if st, ok := u.(*ssa.Store); ok && st.Addr == ssa.Value(fv) {
					return true
				}
			}
		}
	}
	return false
}
