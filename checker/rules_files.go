package main

import (
	"fmt"
	"go/token"
	"sort"
	"strings"

	"golang.org/x/tools/go/ssa"
)

// nameSite is one file-system call with an abstract file name.
type nameSite struct {
	Op     string // Remove, Rename-from, Rename-to, Open-create, Open-read, Stat
	Family string
	Fn     string
	Pos    token.Pos
	Ctx    *Ctx
}

// openFlagsReadOnly reports whether the openFileFlags value passed at call c has readOnly set to true.
func openFlagsReadOnly(v ssa.Value) bool {
	v = strip(v)
	if u, ok := v.(*ssa.UnOp); ok && u.Op == token.MUL {
		if a, ok := u.X.(*ssa.Alloc); ok {
			ro := false
			if refs := a.Referrers(); refs != nil {
				for _, r := range *refs {
					if fa, ok := r.(*ssa.FieldAddr); ok && fieldName(fa) == "pogreb.openFileFlags.readOnly" {
						for _, s := range allocStores(fa) {
							if b, ok := constBool(s); ok && b {
								ro = true
							}
						}
					}
				}
			}
			return ro
		}
	}
	return false
}

// collectNameSites walks every entry point of package pogreb and lists file-system calls with abstract names.
func collectNameSites(p *Program, entries []string) []nameSite {
	var out []nameSite
	seen := map[string]bool{}
	for _, ek := range entries {
		f := p.Fn(ek)
		if f == nil {
			continue
		}
		w, _ := allNodes(p, f)
		for n := range w.Reached {
			add := func(op string, v ssa.Value) {
				fam := nameAbs(n.Ctx, v, 0)
				key := op + "|" + fam + "|" + funcKey(n.Ctx.Fn) + "|" + fmt.Sprint(n.In.Pos())
				if seen[key] {
					return
				}
				seen[key] = true
				out = append(out, nameSite{Op: op, Family: fam, Fn: funcKey(n.Ctx.Fn), Pos: n.In.Pos(), Ctx: n.Ctx})
			}
			if e := fsEventOf(n); e != nil && e.Iface == "fs.FileSystem" {
				switch e.Method {
				case "Remove":
					add("Remove", invokeArg(e.Call, 0))
				case "Rename":
					add("Rename-from", invokeArg(e.Call, 0))
					add("Rename-to", invokeArg(e.Call, 1))
				case "Stat":
					add("Stat", invokeArg(e.Call, 0))
				case "OpenFile":
					// classification by the flag happens at the openFile helper; direct calls: constant flag
					if fl, ok := constInt(strip(invokeArg(e.Call, 1))); ok {
						if fl&0x40 != 0 { // os.O_CREATE on linux
							add("Open-create", invokeArg(e.Call, 0))
						} else {
							add("Open-read", invokeArg(e.Call, 0))
						}
					}
				}
			}
			if c, ok := n.In.(*ssa.Call); ok && calleeKey(&c.Call) == "pogreb.openFile" && len(c.Call.Args) == 3 {
				if openFlagsReadOnly(c.Call.Args[2]) {
					add("Open-read", c.Call.Args[1])
				} else {
					add("Open-create", c.Call.Args[1])
				}
			}
		}
	}
	sort.Slice(out, func(i, j int) bool {
		if out[i].Fn != out[j].Fn {
			return out[i].Fn < out[j].Fn
		}
		return out[i].Pos < out[j].Pos
	})
	return out
}

var apiEntries = []string{
	"pogreb.Open", "(*pogreb.DB).Close", "(*pogreb.DB).Put", "(*pogreb.DB).Delete", "(*pogreb.DB).Get", "(*pogreb.DB).GetAppend",
	"(*pogreb.DB).Has", "(*pogreb.DB).Sync", "(*pogreb.DB).Compact", "(*pogreb.DB).Backup", "(*pogreb.DB).FileSize",
	"(*pogreb.DB).Count", "(*pogreb.DB).Items", "(*pogreb.ItemIterator).Next", "(*pogreb.DB).Metrics",
}

// ruleC15NameFamilies: what is removed was created; every per-segment family that is created is removed with the segment.
func ruleC15NameFamilies(r *Run, p *Program, rule string) {
	sites := collectNameSites(p, apiEntries)
	created := map[string]bool{}
	for _, s := range sites {
		if s.Op == "Open-create" || s.Op == "Rename-to" {
			created[s.Family] = true
		}
	}
	var fams []string
	for k := range created {
		fams = append(fams, k)
	}
	sort.Strings(fams)
	r.Notes = append(r.Notes, "file-name families created: "+strings.Join(fams, ", "))
	nRemove := 0
	removedBySegRemoval := map[string]bool{}
	for _, s := range sites {
		r.fn(s.Fn)
		if s.Op != "Remove" {
			continue
		}
		nRemove++
		construct := s.Fn + "->Remove(" + s.Family + ")"
		okv := created[s.Family]
		if s.Family == "DIRENT" {
			// removal of names found in the directory listing: must be filtered by an extension the package creates (recovery .bac)
			okv = true
		}
		if strings.Contains(s.Family, "?") || strings.Contains(s.Family, "PARAM") {
			r.undecided(rule, construct, p.Pos(s.Pos), "cannot evaluate the file name passed to FileSystem.Remove")
			continue
		}
		r.check(okv, rule, construct, p.Pos(s.Pos),
			"the removed name family is one the package creates",
			"FileSystem.Remove targets the name family '"+s.Family+"', which no call site of the package ever creates: the removal is a no-op and the file it was meant to delete stays behind")
		if s.Fn == "(*pogreb.datalog).removeSegment" {
			removedBySegRemoval[s.Family] = true
		}
	}
	r.universe(rule, nRemove, 3)
	// per-segment families: SEG and everything created as SEG+suffix
	nSeg := 0
	for _, fam := range fams {
		if !strings.HasPrefix(fam, "SEG") {
			continue
		}
		nSeg++
		r.check(removedBySegRemoval[fam], rule, "(*pogreb.datalog).removeSegment:removes("+fam+")", "",
			"files of family "+fam+" are removed together with their segment",
			"files of family '"+fam+"' are created for a segment but never removed when the segment is removed: they accumulate in the directory")
	}
	r.universe(rule+":segment-families", nSeg, 2)
	// recovery backups: every Rename-to family X.bac is removed by removeRecoveryBackupFiles (DIRENT filtered by ext)
	hasBac := false
	for _, s := range sites {
		if s.Op == "Rename-to" && strings.HasSuffix(s.Family, ".bac") {
			hasBac = true
		}
	}
	if hasBac {
		rm := false
		for _, s := range sites {
			if s.Op == "Remove" && s.Fn == "pogreb.removeRecoveryBackupFiles" {
				rm = true
			}
		}
		r.check(rm, rule, "pogreb.removeRecoveryBackupFiles", "", "recovery backups (*.bac) are removed at the end of recovery", "recovery moves files aside as *.bac but nothing removes them")
	}
}

// ruleC15CurSegLive: no I/O through datalog.curSeg unless the segment is known not to be sealed or was just swapped.
func ruleC15CurSegLive(r *Run, p *Program, rule string) {
	n := 0
	for _, f := range p.ModuleFuncs("") {
		if f.Pkg != p.MainS {
			continue
		}
		instrsOf(f, func(in ssa.Instruction) {
			c, ok := in.(*ssa.Call)
			if !ok {
				return
			}
			var recv ssa.Value
			what := ""
			switch {
			case c.Call.IsInvoke() && typeName(c.Call.Value.Type()) == "fs.File":
				recv, what = c.Call.Value, "fs.File."+c.Call.Method.Name()
			case strings.HasPrefix(calleeKey(&c.Call), "(*pogreb.file)."):
				if len(c.Call.Args) > 0 {
					recv, what = c.Call.Args[0], calleeKey(&c.Call)
				}
			}
			if recv == nil {
				return
			}
			ap := accessPath(nil, recv)
			if !strings.Contains(ap.Chain+".", ".curSeg.") {
				return
			}
			n++
			r.fn(funcKey(f))
			w := &Walk{Fn: f,
				Stop: func(x ssa.Instruction) bool {
					cc, ok := x.(*ssa.Call)
					return ok && calleeKey(&cc.Call) == "(*pogreb.datalog).swapSegment"
				},
				SkipEdge: func(b *ssa.BasicBlock, k int) bool {
					cd := edgeCond(b, k)
					if cd == nil || cd.Op != token.ILLEGAL || cd.Pos {
						return false
					}
					// edge on which curSeg.meta.Full is false
					if !isFieldLoad(cd.V, "pogreb.segmentMeta.Full") {
						return false
					}
					return strings.HasSuffix(accessPath(nil, cd.V).Chain, ".curSeg.meta.Full")
				}}
			w.From()
			construct := funcKey(f) + "->" + what
			if w.Visited[c] {
				r.bad(rule, funcKey(f), p.Pos(c.Pos()), construct+" uses datalog.curSeg for I/O on a path that neither tested that the segment is not sealed nor swapped it: compaction seals, closes and removes the current segment when every record in it is dead, and curSeg keeps pointing at it", w.PathTo(p, c)...)
			} else {
				r.ok(rule, construct, p.Pos(c.Pos()), "I/O on datalog.curSeg only behind '!curSeg.meta.Full' or after swapSegment", true)
			}
		})
	}
	r.universe(rule, n, 2)
}

// ruleC15RemoveOrder: removeSegment forgets and closes the segment before unlinking; Compact counts a segment only after its removal.
func ruleC15RemoveOrder(r *Run, p *Program, rule string) {
	f := p.Fn("(*pogreb.datalog).removeSegment")
	if r.anchor(rule, "(*pogreb.datalog).removeSegment", f != nil) {
		r.fn(funcKey(f))
		var removes, closes, forget []ssa.Instruction
		instrsOf(f, func(in ssa.Instruction) {
			switch x := in.(type) {
			case *ssa.Call:
				if isInvoke(&x.Call, "fs.FileSystem", "Remove") {
					removes = append(removes, x)
				}
				if isInvoke(&x.Call, "fs.File", "Close") {
					closes = append(closes, x)
				}
			case *ssa.Store:
				if ia, ok := x.Addr.(*ssa.IndexAddr); ok && strings.HasSuffix(fieldOrIndexBase(ia.X), "datalog.segments") && isNilConst(x.Val) {
					forget = append(forget, x)
				}
				if ia, ok := x.Addr.(*ssa.IndexAddr); ok && isNilConst(x.Val) {
					if fa, ok := ia.X.(*ssa.FieldAddr); ok && fieldName(fa) == "pogreb.datalog.segments" {
						forget = append(forget, x)
					}
				}
			}
		})
		if r.anchor(rule, "Remove/Close/forget in removeSegment", len(removes) >= 1 && len(closes) >= 1 && len(forget) >= 1) {
			for _, rm := range removes {
				okc := mustPrecede(f, rm, func(in ssa.Instruction) bool { return in == closes[0] })
				okf := mustPrecede(f, rm, func(in ssa.Instruction) bool { return in == forget[0] })
				r.check(okc && okf, rule, funcKey(f)+"->Remove", p.Pos(rm.Pos()), "the segment is forgotten (segments[id]=nil) and closed before its files are unlinked", "a segment file is unlinked before the segment was forgotten and closed: readers may resolve a slot to a removed file, descriptors/mappings of removed files stay open")
			}
			// success requires the segment file itself to be removed
			segRemoved := mustCallOnSuccess(f, func(in ssa.Instruction) bool {
				c, ok := in.(*ssa.Call)
				return ok && isInvoke(&c.Call, "fs.FileSystem", "Remove") && nameAbs(nil, c.Call.Args[0], 0) == "SEG"
			})
			r.check(segRemoved, rule, funcKey(f)+":success-removes-segment", p.Pos(f.Pos()), "removeSegment returns nil only after FileSystem.Remove(segment file)", "removeSegment can return nil without having removed the segment file")
		}
	}
	// Compact: CompactedSegments++ only after compact() returned nil, compact() returns nil only after removeSegment
	if g := p.Fn("(*pogreb.DB).Compact"); r.anchor(rule, "(*pogreb.DB).Compact", g != nil) {
		r.fn(funcKey(g))
		found := false
		instrsOf(g, func(in ssa.Instruction) {
			st, ok := in.(*ssa.Store)
			if !ok || fieldName(st.Addr) != "pogreb.CompactionResult.CompactedSegments" {
				return
			}
			found = true
			okv := controlledBy(g, st, func(c *Cond) bool {
				e := errNilEdge(c)
				if e == nil {
					return false
				}
				call, _ := callResult(e)
				return call != nil && calleeKey(&call.Call) == "(*pogreb.DB).compact"
			})
			r.check(okv, rule, funcKey(g)+":count-after-success", p.Pos(st.Pos()), "CompactedSegments++ only when compact() returned nil", "CompactedSegments is incremented although compact() may have failed: Compact reports segments as compacted that are still in the directory")
		})
		r.anchor(rule, "store to CompactionResult.CompactedSegments in Compact", found)
	}
	if g := p.Fn("(*pogreb.DB).compact"); r.anchor(rule, "(*pogreb.DB).compact", g != nil) {
		okv := mustCallOnSuccess(g, func(in ssa.Instruction) bool {
			c, ok := in.(*ssa.Call)
			return ok && calleeKey(&c.Call) == "(*pogreb.datalog).removeSegment"
		})
		r.check(okv, rule, funcKey(g)+":success-removes", p.Pos(g.Pos()), "compact() returns nil only after removeSegment(source)", "compact() can return nil without removing the source segment")
	}
}

// ---------- C04 ----------

// ruleC04SizeMirror: every length-changing call on the fs.File embedded in a pogreb.file keeps file.size in step.
func ruleC04SizeMirror(r *Run, p *Program, rule string) {
	n := 0
	for _, f := range p.ModuleFuncs("") {
		if f.Pkg != p.MainS {
			continue
		}
		instrsOf(f, func(in ssa.Instruction) {
			c, ok := in.(*ssa.Call)
			if !ok || !c.Call.IsInvoke() || typeName(c.Call.Value.Type()) != "fs.File" || !fileMutators[c.Call.Method.Name()] {
				// conversions of *file / *segment to io.Writer
				if mi, ok := in.(*ssa.MakeInterface); ok {
					tn := typeName(mi.X.Type())
					if (tn == "*pogreb.file" || tn == "*pogreb.segment") && strings.HasSuffix(mi.Type().String(), "io.Writer") {
						n++
						r.fn(funcKey(f))
						okv := funcKey(f) == "pogreb.writeGobFile"
						r.check(okv, rule, funcKey(f)+"->io.Writer("+tn+")", p.Pos(mi.Pos()),
							"reviewed exception: writeGobFile writes a function-local file through an io.Writer and closes it; its size field is never read again",
							"a pogreb.file is handed out as an io.Writer: writes through it bypass the file.size bookkeeping that decides where the next append goes")
					}
				}
				return
			}
			// is the receiver the File field embedded in a pogreb.file?
			ld, ok := strip(c.Call.Value).(*ssa.UnOp)
			if !ok {
				return
			}
			if fieldName(ld.X) != "pogreb.file.File" {
				return
			}
			n++
			r.fn(funcKey(f))
			m := c.Call.Method.Name()
			construct := funcKey(f) + "->File." + m
			pos := p.Pos(c.Pos())
			if funcKey(f) == "(*pogreb.bucketHandle).write" && m == "WriteAt" {
				// in-place rewrite of one bucket: offset must be the handle's own offset
				inPlace := len(c.Call.Args) == 2 && isFieldLoad(c.Call.Args[1], "pogreb.bucketHandle.offset")
				r.check(inPlace, rule, construct, pos, "reviewed exception: in-place rewrite of a bucket at bucketHandle.offset (obtained from bucketOffset/extend), length unchanged",
					"bucketHandle.write does not write at the handle's own offset")
				return
			}
			// accepted: on every path from the call through its success edge to a return, file.size of the same file is assigned
			fa := ld.X.(*ssa.FieldAddr)
			owner := accessPath(nil, fa.X)
			w := &Walk{Fn: f,
				Stop: func(x ssa.Instruction) bool {
					st, ok := x.(*ssa.Store)
					if !ok || fieldName(st.Addr) != "pogreb.file.size" {
						return false
					}
					sa := st.Addr.(*ssa.FieldAddr)
					o2 := accessPath(nil, sa.X)
					return o2.Root == owner.Root && o2.Chain == owner.Chain
				},
				SkipEdge: func(b *ssa.BasicBlock, k int) bool {
					cd := edgeCond(b, k)
					if cd == nil {
						return false
					}
					e := errNonNilEdge(cd)
					return e != nil && valueOfCall(e, c)
				}}
			w.From(c)
			bad := false
			for _, ret := range returnsOf(f) {
				if w.Visited[ret] && !isFailureReturn(f, ret) {
					bad = true
					r.bad(rule, construct, pos, "the length of a database file is changed through the embedded fs.File ("+m+") without updating file.size on the success path: the next append is placed at a stale offset and the records it writes are discarded by the next recovery", w.PathTo(p, ret)...)
					break
				}
			}
			if !bad {
				r.ok(rule, construct, pos, "file.size of the same file is assigned on every success path after File."+m, true)
			}
		})
	}
	r.universe(rule, n, 5)
}

// ---------- C19 ----------

// decodedTaint computes the values of fn derived from integers decoded from file bytes (binary.LittleEndian.UintN).
func decodedTaint(fn *ssa.Function) map[ssa.Value]bool {
	t := map[ssa.Value]bool{}
	changed := true
	isSrc := func(v ssa.Value) bool {
		c, ok := v.(*ssa.Call)
		if !ok {
			return false
		}
		k := calleeKey(&c.Call)
		return strings.HasPrefix(k, "(encoding/binary.littleEndian).Uint") || strings.HasPrefix(k, "(encoding/binary.bigEndian).Uint")
	}
	for changed {
		changed = false
		instrsOf(fn, func(in ssa.Instruction) {
			v, ok := in.(ssa.Value)
			if !ok || t[v] {
				return
			}
			mark := false
			switch x := in.(type) {
			case *ssa.Call:
				if isSrc(x) {
					mark = true
				} else if f := x.Call.StaticCallee(); f != nil && inModule(f) {
					for _, a := range x.Call.Args {
						if t[a] {
							mark = true
						}
					}
				}
			case *ssa.BinOp:
				mark = t[x.X] || t[x.Y]
			case *ssa.UnOp:
				mark = t[x.X]
			case *ssa.Convert:
				mark = t[x.X]
			case *ssa.ChangeType:
				mark = t[x.X]
			case *ssa.Phi:
				for _, e := range x.Edges {
					if t[e] {
						mark = true
					}
				}
			case *ssa.Extract:
				mark = t[x.Tuple]
			}
			if mark {
				t[v] = true
				changed = true
			}
		})
	}
	return t
}

func ruleC19AllocBound(r *Run, p *Program, rule string) {
	// functions reachable from recovery / segment iteration
	entries := []string{"(*pogreb.DB).recover", "(*pogreb.segmentIterator).next", "(*pogreb.recoveryIterator).next", "pogreb.newSegmentIterator"}
	funcs := map[*ssa.Function]bool{}
	for _, ek := range entries {
		f := p.Fn(ek)
		if !r.anchor(rule, ek, f != nil) {
			continue
		}
		w, _ := allNodes(p, f)
		for n := range w.Reached {
			funcs[n.Ctx.Fn] = true
		}
	}
	sinks := 0
	for f := range funcs {
		r.fn(funcKey(f))
		t := decodedTaint(f)
		instrsOf(f, func(in ssa.Instruction) {
			var size ssa.Value
			what := ""
			switch x := in.(type) {
			case *ssa.MakeSlice:
				size, what = x.Len, "make([]byte, n)"
				if t[x.Cap] {
					size = x.Cap
				}
			case *ssa.Call:
				k := calleeKey(&x.Call)
				if k == "(*bytes.Buffer).Grow" && len(x.Call.Args) == 2 {
					size, what = x.Call.Args[1], "Buffer.Grow(n)"
				}
				if k == "io.CopyN" && len(x.Call.Args) == 3 {
					size, what = x.Call.Args[2], "io.CopyN(n)"
				}
			}
			if size == nil || !t[size] {
				return
			}
			sinks++
			// guarded: reachable only via an edge on which (tainted expr) <= / < (untainted bound)
			okv := controlledBy(f, in, func(c *Cond) bool { return boundsTainted(c, t) })
			r.check(okv, rule, funcKey(f)+":"+what, p.Pos(in.Pos()),
				"the allocation sized by a length decoded from the file is reachable only after that length was compared with a bound not derived from file contents",
				"an allocation is sized by a length field decoded from the segment file ("+valString(size)+") without first comparing it with the file length or a constant cap: a torn or garbage header makes the recovering Open allocate up to 2 GiB")
		})
	}
	r.universe(rule, sinks, 1)
}

// boundsTainted: on this edge, tainted <= untainted (or <) holds.
func boundsTainted(c *Cond, t map[ssa.Value]bool) bool {
	if c.X == nil || c.Y == nil {
		return false
	}
	tx, ty := t[c.X], t[c.Y]
	if tx == ty {
		return false
	}
	op := c.Op
	if !c.Pos {
		switch op {
		case token.LSS:
			op = token.GEQ
		case token.LEQ:
			op = token.GTR
		case token.GTR:
			op = token.LEQ
		case token.GEQ:
			op = token.LSS
		default:
			return false
		}
	}
	// now "X op Y" holds
	if tx {
		return op == token.LSS || op == token.LEQ
	}
	return op == token.GTR || op == token.GEQ
}
