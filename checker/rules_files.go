package main

import (
	"fmt"
	"go/token"
	"go/types"
	"sort"
	"strings"

	"golang.org/x/tools/go/ssa"
)

// nameSite is one file-system call with an abstract file name.
type nameSite struct {
	Op     string // Remove, Rename-from, Rename-to, Open-create, Open-read, Stat
	Family string
	Fn     string
	Pos    token.Pos
	Ctx    *Ctx
}

// openFlagsReadOnly reports whether the openFileFlags value passed at call c has readOnly set to true.
func openFlagsReadOnly(v ssa.Value) bool {
	v = strip(v)
	if u, ok := v.(*ssa.UnOp); ok && u.Op == token.MUL {
		if a, ok := u.X.(*ssa.Alloc); ok {
			ro := false
			if refs := a.Referrers(); refs != nil {
				for _, r := range *refs {
					if fa, ok := r.(*ssa.FieldAddr); ok && fieldName(fa) == "pogreb.openFileFlags.readOnly" {
						for _, s := range allocStores(fa) {
							if b, ok := constBool(s); ok && b {
								ro = true
							}
						}
					}
				}
			}
			return ro
		}
	}
	return false
}

// collectNameSites walks every entry point of package pogreb and lists file-system calls with abstract names.
func collectNameSites(p *Program, entries []string) []nameSite {
	var out []nameSite
	seen := map[string]bool{}
	for _, ek := range entries {
		f := p.Fn(ek)
		if f == nil {
			continue
		}
		w, _ := allNodes(p, f)
		for n := range w.Reached {
			add := func(op string, v ssa.Value) {
				fam := nameAbs(n.Ctx, v, 0)
				key := op + "|" + fam + "|" + funcKey(n.Ctx.Fn) + "|" + fmt.Sprint(n.In.Pos())
				if seen[key] {
					return
				}
				seen[key] = true
				out = append(out, nameSite{Op: op, Family: fam, Fn: funcKey(n.Ctx.Fn), Pos: n.In.Pos(), Ctx: n.Ctx})
			}
			if e := fsEventOf(n); e != nil && e.Iface == "fs.FileSystem" {
				switch e.Method {
				case "Remove":
					add("Remove", invokeArg(e.Call, 0))
				case "Rename":
					add("Rename-from", invokeArg(e.Call, 0))
					add("Rename-to", invokeArg(e.Call, 1))
				case "Stat":
					add("Stat", invokeArg(e.Call, 0))
				case "OpenFile":
					// classification by the flag happens at the openFile helper; direct calls: constant flag
					if fl, ok := constInt(strip(invokeArg(e.Call, 1))); ok {
						oCreate := osFlag(p, "O_CREATE")
						if oCreate == 0 {
							oCreate = 0x40
						}
						if fl&oCreate != 0 {
							add("Open-create", invokeArg(e.Call, 0))
						} else {
							add("Open-read", invokeArg(e.Call, 0))
						}
					}
				}
			}
			if c, ok := n.In.(*ssa.Call); ok && calleeKey(&c.Call) == "pogreb.openFile" && len(c.Call.Args) == 3 {
				if openFlagsReadOnly(c.Call.Args[2]) {
					add("Open-read", c.Call.Args[1])
				} else {
					add("Open-create", c.Call.Args[1])
				}
			}
		}
	}
	sort.Slice(out, func(i, j int) bool {
		if out[i].Fn != out[j].Fn {
			return out[i].Fn < out[j].Fn
		}
		return out[i].Pos < out[j].Pos
	})
	return out
}

var apiEntries = []string{
	"pogreb.Open", "(*pogreb.DB).Close", "(*pogreb.DB).Put", "(*pogreb.DB).Delete", "(*pogreb.DB).Get", "(*pogreb.DB).GetAppend",
	"(*pogreb.DB).Has", "(*pogreb.DB).Sync", "(*pogreb.DB).Compact", "(*pogreb.DB).Backup", "(*pogreb.DB).FileSize",
	"(*pogreb.DB).Count", "(*pogreb.DB).Items", "(*pogreb.ItemIterator).Next", "(*pogreb.DB).Metrics",
}

// segFamily splits a name family into (segment base, suffix); base "" when the name is not a segment-derived name.
// SEGNAME = the name a segment was opened under (segment.name), SEGCANON = the name recomputed from (id, sequence id),
// DIRENT = a name taken from the directory listing. For legacy names (no sequence id) SEGCANON differs from SEGNAME.
func segFamily(f string) (base, suffix string) {
	for _, b := range []string{"SEGNAME", "SEGCANON", "DIRENT"} {
		if strings.HasPrefix(f, b) {
			return b, strings.TrimPrefix(f, b)
		}
	}
	return "", f
}

// ruleC15NameFamilies: what is removed was created; every per-segment family that is created is removed with the segment.
func ruleC15NameFamilies(r *Run, p *Program, rule string) {
	sites := collectNameSites(p, apiEntries)
	created := map[string]bool{}
	segSuffixes := map[string]bool{}
	for _, s := range sites {
		if s.Op == "Open-create" || s.Op == "Rename-to" {
			created[s.Family] = true
			if b, suf := segFamily(s.Family); b != "" && s.Op == "Open-create" {
				segSuffixes[suf] = true
			}
		}
	}
	var fams []string
	for k := range created {
		fams = append(fams, k)
	}
	sort.Strings(fams)
	r.Notes = append(r.Notes, "file-name families created: "+strings.Join(fams, ", "))
	nRemove := 0
	removedBySegRemoval := map[string]bool{}
	for _, s := range sites {
		r.fn(s.Fn)
		if s.Op != "Remove" {
			continue
		}
		nRemove++
		construct := s.Fn + "->Remove(" + s.Family + ")"
		if strings.Contains(s.Family, "?") || strings.Contains(s.Family, "PARAM") {
			r.undecided(rule, construct, p.Pos(s.Pos), "cannot evaluate the file name passed to FileSystem.Remove")
			continue
		}
		base, suf := segFamily(s.Family)
		switch base {
		case "SEGNAME":
			r.check(segSuffixes[suf], rule, construct, p.Pos(s.Pos), "removes <name the segment was opened under>"+suf+", a family the package creates",
				"FileSystem.Remove targets '<segment name>"+suf+"', which no call site of the package ever creates: the removal is a no-op and the file it was meant to delete stays behind")
		case "SEGCANON":
			r.bad(rule, construct, p.Pos(s.Pos), "FileSystem.Remove targets a name recomputed from (id, sequence id) instead of the name the segment was opened under: for segments with a legacy name (no sequence id) this is a different, non-existent file, and the real file is left behind")
		case "DIRENT":
			r.ok(rule, construct, p.Pos(s.Pos), "removes names taken from the directory listing", true)
		default:
			r.check(created[s.Family], rule, construct, p.Pos(s.Pos), "the removed name family is one the package creates", "FileSystem.Remove targets '"+s.Family+"', which no call site of the package ever creates")
		}
		if s.Fn == "(*pogreb.datalog).removeSegment" && base == "SEGNAME" {
			removedBySegRemoval[suf] = true
		}
	}
	r.universe(rule, nRemove, 3)
	var sufs []string
	for k := range segSuffixes {
		sufs = append(sufs, k)
	}
	sort.Strings(sufs)
	for _, suf := range sufs {
		r.check(removedBySegRemoval[suf], rule, "(*pogreb.datalog).removeSegment:removes(SEG"+suf+")", "",
			"files '<segment name>"+suf+"' are removed together with their segment",
			"files '<segment name>"+suf+"' are created for a segment but never removed (under the name the segment was opened with) when the segment is removed: they accumulate in the directory")
	}
	r.universe(rule+":segment-families", len(sufs), 2)
	// recovery backups
	hasBac := false
	for _, s := range sites {
		if s.Op == "Rename-to" && strings.HasSuffix(s.Family, ".bac") {
			hasBac = true
		}
	}
	if hasBac {
		rm := false
		for _, s := range sites {
			if s.Op == "Remove" && ctxHasFn(s.Ctx, "pogreb.removeRecoveryBackupFiles") {
				rm = true
			}
		}
		r.check(rm, rule, "pogreb.removeRecoveryBackupFiles", "", "recovery backups (*.bac) are removed at the end of recovery", "recovery moves files aside as *.bac but nothing removes them")
	}
	// the backup removal only removes *.bac
	if f := p.Fn("pogreb.removeRecoveryBackupFiles"); r.anchor(rule, "pogreb.removeRecoveryBackupFiles", f != nil) {
		rms := findWorkDeep(p, f, func(in ssa.Instruction) bool {
			c, ok := in.(*ssa.Call)
			return ok && isInvoke(&c.Call, "fs.FileSystem", "Remove")
		})
		if r.anchor(rule, "Remove in removeRecoveryBackupFiles", len(rms) > 0) {
			for _, nd := range rms {
				okv := controlledDeep(nd, func(c *Cond) bool { return strConstEq(c, ".bac") })
				r.check(okv, rule, "pogreb.removeRecoveryBackupFiles:only-bac", p.Pos(nd.In.Pos()), "only names with extension .bac are removed", "the end-of-recovery clean-up can remove files that are not recovery backups")
			}
		}
	}
}

// ctxHasFn: some frame of the call string is the function with the given key.
func ctxHasFn(ctx *Ctx, key string) bool {
	for ; ctx != nil; ctx = ctx.Parent {
		if funcKey(ctx.Fn) == key {
			return true
		}
	}
	return false
}

// ruleC15CurSegLive: no I/O through datalog.curSeg (directly or in a callee it is passed to) unless the segment is known
// not to be sealed or was just swapped.
func ruleC15CurSegLive(r *Run, p *Program, rule string) {
	n := 0
	seen := map[string]bool{}
	for _, f := range p.ModuleFuncs("") {
		if f.Pkg != p.MainS {
			continue
		}
		loads := false
		instrsOf(f, func(in ssa.Instruction) {
			if u, ok := in.(*ssa.UnOp); ok && u.Op == token.MUL && fieldName(u.X) == "pogreb.datalog.curSeg" {
				loads = true
			}
		})
		if !loads {
			continue
		}
		r.fn(funcKey(f))
		isCur := func(ctx *Ctx, v ssa.Value) bool {
			ap := accessPath(ctx, v)
			return strings.Contains(ap.Chain+".", ".curSeg.")
		}
		w := &IPWalk{P: p,
			Visit: func(nd Node) bool {
				return calleeOfNode(nil, nd) == "(*pogreb.datalog).swapSegment"
			},
			SkipEdge: func(ctx *Ctx, b *ssa.BasicBlock, k int) bool {
				cd := edgeCond(b, k)
				if cd == nil || cd.Op != token.ILLEGAL || cd.Pos {
					return false
				}
				return isFieldLoad(cd.V, "pogreb.segmentMeta.Full") && isCur(ctx, cd.V)
			}}
		root := &Ctx{Fn: f}
		w.Run(root, nil)
		all, _ := allNodesFrom(p, root)
		for nd := range all.Reached {
			e := fsEventOf(nd)
			if e == nil || e.Iface != "fs.File" || !strings.Contains(e.Recv.Chain+".", ".curSeg.") {
				continue
			}
			if e.Method == "Slice" || e.Method == "ReadAt" || e.Method == "Stat" {
				continue
			}
			n++
			construct := funcKey(f) + "->" + funcKey(nd.Ctx.Fn) + ":File." + e.Method
			if funcKey(nd.Ctx.Fn) == funcKey(f) {
				construct = funcKey(f) + "->fs.File." + e.Method
			}
			if seen[construct] {
				continue
			}
			seen[construct] = true
			if w.Reached[nd] {
				r.bad(rule, funcKey(f), p.Pos(instrPos(nd.In)), construct+" uses datalog.curSeg for I/O on a path that neither tested that the segment is not sealed nor swapped it: compaction seals, closes and removes the current segment when every record in it is dead, and curSeg keeps pointing at it until the next swap (\"file already closed\")", w.PathTo(nd)...)
			} else {
				r.ok(rule, construct, p.Pos(instrPos(nd.In)), "I/O on datalog.curSeg only behind '!curSeg.meta.Full' or after swapSegment", true)
			}
		}
	}
	r.universe(rule, n, 2)
}

// allNodesFrom explores everything reachable from an existing root context.
func allNodesFrom(p *Program, root *Ctx) (*IPWalk, *Ctx) {
	w := &IPWalk{P: p}
	w.Run(root, nil)
	return w, root
}

// ruleC15RemoveOrder: removeSegment forgets and closes the segment before unlinking; Compact counts a segment only after its removal.
func ruleC15RemoveOrder(r *Run, p *Program, rule string) {
	f := p.Fn("(*pogreb.datalog).removeSegment")
	if r.anchor(rule, "(*pogreb.datalog).removeSegment", f != nil) {
		r.fn(funcKey(f))
		var removes, closes, forget []ssa.Instruction
		instrsOf(f, func(in ssa.Instruction) {
			switch x := in.(type) {
			case *ssa.Call:
				if isInvoke(&x.Call, "fs.FileSystem", "Remove") {
					removes = append(removes, x)
				}
				if isInvoke(&x.Call, "fs.File", "Close") {
					closes = append(closes, x)
				}
			case *ssa.Store:
				if ia, ok := x.Addr.(*ssa.IndexAddr); ok && strings.HasSuffix(fieldOrIndexBase(ia.X), "datalog.segments") && isNilConst(x.Val) {
					forget = append(forget, x)
				}
				if ia, ok := x.Addr.(*ssa.IndexAddr); ok && isNilConst(x.Val) {
					if fa, ok := ia.X.(*ssa.FieldAddr); ok && fieldName(fa) == "pogreb.datalog.segments" {
						forget = append(forget, x)
					}
				}
			}
		})
		if r.anchor(rule, "Remove/Close/forget in removeSegment", len(removes) >= 1 && len(closes) >= 1 && len(forget) >= 1) {
			for _, rm := range removes {
				okc := mustPrecede(f, rm, func(in ssa.Instruction) bool { return in == closes[0] })
				okf := mustPrecede(f, rm, func(in ssa.Instruction) bool { return in == forget[0] })
				r.check(okc && okf, rule, funcKey(f)+"->Remove", p.Pos(rm.Pos()), "the segment is forgotten (segments[id]=nil) and closed before its files are unlinked", "a segment file is unlinked before the segment was forgotten and closed: readers may resolve a slot to a removed file, descriptors/mappings of removed files stay open")
			}
			// success requires the segment file itself to be removed
			segRemoved := mustCallOnSuccess(f, func(in ssa.Instruction) bool {
				c, ok := in.(*ssa.Call)
				return ok && isInvoke(&c.Call, "fs.FileSystem", "Remove") && nameAbs(nil, c.Call.Args[0], 0) == "SEGNAME"
			})
			r.check(segRemoved, rule, funcKey(f)+":success-removes-segment", p.Pos(f.Pos()), "removeSegment returns nil only after FileSystem.Remove(segment file)", "removeSegment can return nil without having removed the segment file")
		}
	}
	// Compact: CompactedSegments++ only after compact() returned nil, compact() returns nil only after removeSegment
	if g := p.Fn("(*pogreb.DB).Compact"); r.anchor(rule, "(*pogreb.DB).Compact", g != nil) {
		r.fn(funcKey(g))
		found := false
		instrsOf(g, func(in ssa.Instruction) {
			st, ok := in.(*ssa.Store)
			if !ok || fieldName(st.Addr) != "pogreb.CompactionResult.CompactedSegments" {
				return
			}
			found = true
			okv := controlledBy(g, st, func(c *Cond) bool {
				e := errNilEdge(c)
				if e == nil {
					return false
				}
				call, _ := callResult(e)
				return call != nil && calleeKey(&call.Call) == "(*pogreb.DB).compact"
			})
			r.check(okv, rule, funcKey(g)+":count-after-success", p.Pos(st.Pos()), "CompactedSegments++ only when compact() returned nil", "CompactedSegments is incremented although compact() may have failed: Compact reports segments as compacted that are still in the directory")
		})
		r.anchor(rule, "store to CompactionResult.CompactedSegments in Compact", found)
	}
	if g := p.Fn("(*pogreb.DB).compact"); r.anchor(rule, "(*pogreb.DB).compact", g != nil) {
		w := &Walk{Fn: g, Stop: func(in ssa.Instruction) bool {
			c, ok := in.(*ssa.Call)
			return ok && calleeKey(&c.Call) == "(*pogreb.datalog).removeSegment"
		}, SkipEdge: func(b *ssa.BasicBlock, k int) bool {
			// a defensive "source segment is nil" guard has nothing to remove
			c := edgeCond(b, k)
			if c == nil {
				return false
			}
			eq, ok := c.holdsEq()
			if !ok || !eq {
				return false
			}
			_, px := strip(c.X).(*ssa.Parameter)
			return px && isNilConst(c.Y)
		}}
		w.From()
		okv := true
		for _, ret := range returnsOf(g) {
			if w.succ(g, ret) {
				okv = false
			}
		}
		r.check(okv, rule, funcKey(g)+":success-removes", p.Pos(g.Pos()), "compact() returns nil only after removeSegment(source)", "compact() can return nil without removing the source segment")
	}
}

// ---------- C04 ----------

// ruleC04SizeMirror: every length-changing call on the fs.File embedded in a pogreb.file keeps file.size in step.
func ruleC04SizeMirror(r *Run, p *Program, rule string) {
	n := 0
	for _, f := range p.ModuleFuncs("") {
		if f.Pkg != p.MainS {
			continue
		}
		instrsOf(f, func(in ssa.Instruction) {
			c, ok := in.(*ssa.Call)
			if !ok || !c.Call.IsInvoke() || typeName(c.Call.Value.Type()) != "fs.File" || !fileMutators[c.Call.Method.Name()] {
				// conversions of *file / *segment to io.Writer
				if mi, ok := in.(*ssa.MakeInterface); ok {
					tn := typeName(mi.X.Type())
					if (tn == "*pogreb.file" || tn == "*pogreb.segment") && strings.HasSuffix(mi.Type().String(), "io.Writer") {
						n++
						r.fn(funcKey(f))
						okv := funcKey(f) == "pogreb.writeGobFile"
						r.check(okv, rule, funcKey(f)+"->io.Writer("+tn+")", p.Pos(mi.Pos()),
							"reviewed exception: writeGobFile writes a function-local file through an io.Writer and closes it; its size field is never read again",
							"a pogreb.file is handed out as an io.Writer: writes through it bypass the file.size bookkeeping that decides where the next append goes")
					}
				}
				return
			}
			// is the receiver the File field embedded in a pogreb.file?
			ld, ok := strip(c.Call.Value).(*ssa.UnOp)
			if !ok {
				return
			}
			if fieldName(ld.X) != "pogreb.file.File" {
				return
			}
			n++
			r.fn(funcKey(f))
			m := c.Call.Method.Name()
			construct := funcKey(f) + "->File." + m
			pos := p.Pos(c.Pos())
			if funcKey(f) == "(*pogreb.bucketHandle).write" && m == "WriteAt" {
				// in-place rewrite of one bucket: offset must be the handle's own offset
				inPlace := len(c.Call.Args) == 2 && isFieldLoad(c.Call.Args[1], "pogreb.bucketHandle.offset")
				r.check(inPlace, rule, construct, pos, "reviewed exception: in-place rewrite of a bucket at bucketHandle.offset (obtained from bucketOffset/extend), length unchanged",
					"bucketHandle.write does not write at the handle's own offset")
				return
			}
			// accepted: on every path from the call through its success edge to a return, file.size of the same file is assigned
			fa := ld.X.(*ssa.FieldAddr)
			owner := accessPath(nil, fa.X)
			w := &Walk{Fn: f,
				Stop: func(x ssa.Instruction) bool {
					st, ok := x.(*ssa.Store)
					if !ok || fieldName(st.Addr) != "pogreb.file.size" {
						return false
					}
					sa := st.Addr.(*ssa.FieldAddr)
					o2 := accessPath(nil, sa.X)
					return o2.Root == owner.Root && o2.Chain == owner.Chain
				},
				SkipEdge: func(b *ssa.BasicBlock, k int) bool {
					cd := edgeCond(b, k)
					if cd == nil {
						return false
					}
					e := errNonNilEdge(cd)
					return e != nil && valueOfCall(e, c)
				}}
			w.From(c)
			bad := false
			for _, ret := range returnsOf(f) {
				if w.succ(f, ret) {
					bad = true
					r.bad(rule, construct, pos, "the length of a database file is changed through the embedded fs.File ("+m+") without updating file.size on the success path: the next append is placed at a stale offset and the records it writes are discarded by the next recovery", w.PathTo(p, ret)...)
					break
				}
			}
			if !bad {
				r.ok(rule, construct, pos, "file.size of the same file is assigned on every success path after File."+m, true)
			}
			// ... and only there: when the call failed the tracked size must not move
			wf := &Walk{Fn: f, SkipEdge: func(b *ssa.BasicBlock, k int) bool {
				cd := edgeCond(b, k)
				if cd == nil {
					return false
				}
				e := errNilEdge(cd)
				return e != nil && valueOfCall(e, c)
			}}
			wf.From(c)
			movedOnFailure := false
			errTested := false
			for _, bb := range f.Blocks {
				for k := range bb.Succs {
					if cd := edgeCond(bb, k); cd != nil {
						if e := errNilEdge(cd); e != nil && valueOfCall(e, c) {
							errTested = true
						}
					}
				}
			}
			instrsOf(f, func(x ssa.Instruction) {
				st, ok := x.(*ssa.Store)
				if !ok || fieldName(st.Addr) != "pogreb.file.size" || !wf.Visited[st] {
					return
				}
				if errTested {
					movedOnFailure = true
				}
			})
			r.check(!movedOnFailure, rule, construct+":size-only-on-success", pos, "file.size is not changed when File."+m+" failed", "file.size is advanced although File."+m+" returned an error (e.g. a short write): the torn bytes stay inside the segment, later records are appended behind them and the next recovery cuts everything after the torn record")
		})
	}
	r.universe(rule, n, 4)
}

// ---------- C19 ----------

// decodedTaintAll computes, for all functions of package pogreb, the values derived from integers decoded from file bytes
// (binary.*Endian.UintN), through arithmetic, conversions, phis, tuple extraction, module calls (arguments to parameters,
// tainted returns to call results).
func decodedTaintAll(p *Program) map[ssa.Value]bool {
	t := map[ssa.Value]bool{}
	rets := map[*ssa.Function]map[int]bool{}
	isSrc := func(v ssa.Value) bool {
		c, ok := v.(*ssa.Call)
		if !ok {
			return false
		}
		k := calleeKey(&c.Call)
		return strings.HasPrefix(k, "(encoding/binary.littleEndian).Uint") || strings.HasPrefix(k, "(encoding/binary.bigEndian).Uint")
	}
	var funcs []*ssa.Function
	for _, f := range p.ModuleFuncs("") {
		if f.Pkg == p.MainS {
			funcs = append(funcs, f)
		}
	}
	changed := true
	for iter := 0; changed && iter < 40; iter++ {
		changed = false
		for _, fn := range funcs {
			instrsOf(fn, func(in ssa.Instruction) {
				if r, ok := in.(*ssa.Return); ok {
					for i, rv := range r.Results {
						if t[rv] {
							if rets[fn] == nil {
								rets[fn] = map[int]bool{}
							}
							if !rets[fn][i] {
								rets[fn][i] = true
								changed = true
							}
						}
					}
					return
				}
				v, ok := in.(ssa.Value)
				if !ok || t[v] {
					return
				}
				mark := false
				switch x := in.(type) {
				case *ssa.Call:
					if isSrc(x) {
						mark = true
					} else if f := x.Call.StaticCallee(); f != nil && inModule(f) {
						if f.Signature.Results().Len() == 1 && rets[f][0] {
							mark = true
						}
						// methods on a value that carries decoded data
						for _, a := range x.Call.Args {
							if t[a] {
								if _, isStruct := a.Type().Underlying().(*types.Struct); isStruct {
									mark = true
								}
							}
						}
						// pure helpers: a tainted argument taints the (integer) result
						if _, isInt, _ := intBits(x.Type(), false); isInt || true {
							if _, _, ok := intBits(x.Type(), false); ok {
								for _, a := range x.Call.Args {
									if t[a] {
										mark = true
									}
								}
							}
						}
					}
				case *ssa.BinOp:
					mark = t[x.X] || t[x.Y]
				case *ssa.Field:
					mark = t[x.X]
				case *ssa.FieldAddr:
					mark = t[x.X]
				case *ssa.Alloc:
					// a local cell holding a decoded value / a struct one of whose fields holds one
					for _, sv := range allocStores(x) {
						if t[sv] {
							mark = true
						}
					}
					if refs := x.Referrers(); refs != nil {
						for _, rf := range *refs {
							if fa, ok := rf.(*ssa.FieldAddr); ok {
								for _, sv := range allocStores(fa) {
									if t[sv] {
										mark = true
									}
								}
							}
						}
					}
				case *ssa.UnOp:
					mark = t[x.X]
				case *ssa.Convert:
					mark = t[x.X]
				case *ssa.ChangeType:
					mark = t[x.X]
				case *ssa.Phi:
					for _, e := range x.Edges {
						if t[e] {
							mark = true
						}
					}
				case *ssa.Extract:
					if c, ok := x.Tuple.(*ssa.Call); ok {
						if f := c.Call.StaticCallee(); f != nil && inModule(f) && rets[f][x.Index] {
							mark = true
						}
					}
				}
				if mark {
					t[v] = true
					changed = true
				}
			})
		}
	}
	return t
}

func ruleC19AllocBound(r *Run, p *Program, rule string) {
	// functions reachable from recovery / segment iteration, with their call strings
	entries := []string{"(*pogreb.DB).recover", "(*pogreb.segmentIterator).next", "(*pogreb.recoveryIterator).next", "pogreb.newSegmentIterator"}
	t := decodedTaintAll(p)
	sinks := 0
	seen := map[string]bool{}
	for _, ek := range entries {
		f := p.Fn(ek)
		if !r.anchor(rule, ek, f != nil) {
			continue
		}
		w, _ := allNodes(p, f)
		for n := range w.Reached {
			fn := n.Ctx.Fn
			r.fn(funcKey(fn))
			in := n.In
			var size ssa.Value
			what := ""
			switch x := in.(type) {
			case *ssa.MakeSlice:
				size, what = x.Len, "make([]byte, n)"
				if taintedIn(n.Ctx, x.Cap, t, 0) {
					size = x.Cap
				}
			case *ssa.Call:
				k := calleeKey(&x.Call)
				if k == "(*bytes.Buffer).Grow" && len(x.Call.Args) == 2 {
					size, what = x.Call.Args[1], "Buffer.Grow(n)"
				}
				if k == "io.CopyN" && len(x.Call.Args) == 3 {
					size, what = x.Call.Args[2], "io.CopyN(n)"
				}
			}
			if size == nil || !taintedIn(n.Ctx, size, t, 0) {
				continue
			}
			key := funcKey(fn) + ":" + what
			if seen[key] {
				continue
			}
			seen[key] = true
			sinks++
			// guarded in its own function, or the call chain leading here is guarded
			okv := false
			var at ssa.Instruction = in
			root := stripConv(size)
			for c := n.Ctx; c != nil && !okv; c = c.Parent {
				rt := root
				if controlledBy(c.Fn, at, func(cd *Cond) bool { return boundsTainted(cd, t) && boundsValue(cd, t, rt) }) {
					okv = true
				}
				at = c.Site
				if at == nil {
					break
				}
				// in the caller the size is the argument the parameter was bound to (anything else is bounded in its own frame only)
				par, isPar := root.(*ssa.Parameter)
				cc := callOf(c.Site)
				if !isPar || cc == nil || cc.IsInvoke() || paramIndex(par) < 0 || paramIndex(par) >= len(cc.Args) {
					break
				}
				root = stripConv(cc.Args[paramIndex(par)])
			}
			r.check(okv, rule, key, p.Pos(in.Pos()),
				"the allocation sized by a length decoded from the file is reachable only after that length was compared with a bound not derived from file contents",
				"an allocation is sized by a length field decoded from the segment file ("+valString(size)+") without first comparing it, free of wrap-around, with the file length or a constant cap: a torn or garbage header makes the recovering Open allocate up to 2 GiB")
		}
	}
	r.universe(rule, sinks, 1)
}

// taintedIn reports whether v is derived from decoded file bytes, following parameters to the caller's arguments.
func taintedIn(ctx *Ctx, v ssa.Value, t map[ssa.Value]bool, d int) bool {
	if v == nil || d > 12 {
		return false
	}
	if t[v] {
		return true
	}
	switch x := v.(type) {
	case *ssa.Parameter:
		if ctx != nil && ctx.Parent != nil && ctx.Site != nil && ctx.Fn == x.Parent() {
			cc := callOf(ctx.Site)
			idx := paramIndex(x)
			if !cc.IsInvoke() && idx >= 0 && idx < len(cc.Args) {
				return taintedIn(ctx.Parent, cc.Args[idx], t, d+1)
			}
		}
	case *ssa.BinOp:
		return taintedIn(ctx, x.X, t, d+1) || taintedIn(ctx, x.Y, t, d+1)
	case *ssa.Convert:
		return taintedIn(ctx, x.X, t, d+1)
	case *ssa.ChangeType:
		return taintedIn(ctx, x.X, t, d+1)
	case *ssa.Phi:
		for _, e := range x.Edges {
			if taintedIn(ctx, e, t, d+1) {
				return true
			}
		}
	case *ssa.Call:
		if f := x.Call.StaticCallee(); f != nil && inModule(f) {
			if _, _, ok := intBits(x.Type(), false); ok {
				for _, a := range x.Call.Args {
					if taintedIn(ctx, a, t, d+1) {
						return true
					}
				}
			}
		}
	}
	return false
}

// boundsTainted: on this edge, tainted <= untainted (or <) holds.
func boundsTainted(c *Cond, t map[ssa.Value]bool) bool {
	if c.X == nil || c.Y == nil {
		return false
	}
	tx, ty := t[c.X], t[c.Y]
	if tx == ty {
		return false
	}
	// the comparison itself must not be able to wrap around: no subtraction, no arithmetic below 64 bits and no
	// narrowing conversion on either side (a wrapped bound accepts any claimed length)
	if !wrapFree(c.X, 0) || !wrapFree(c.Y, 0) {
		return false
	}
	op := c.Op
	if !c.Pos {
		switch op {
		case token.LSS:
			op = token.GEQ
		case token.LEQ:
			op = token.GTR
		case token.GTR:
			op = token.LEQ
		case token.GEQ:
			op = token.LSS
		default:
			return false
		}
	}
	// now "X op Y" holds
	if tx {
		return op == token.LSS || op == token.LEQ
	}
	return op == token.GTR || op == token.GEQ
}

// boundsValue: the file-derived side of the comparison contains the value itself (as a term of a sum or product of
// non-negative quantities), so that the comparison bounds that value and not some other decoded field.
func boundsValue(c *Cond, t map[ssa.Value]bool, v ssa.Value) bool {
	side := c.X
	if !t[c.X] {
		side = c.Y
	}
	return monotoneTerm(side, v, 0)
}

func monotoneTerm(e, v ssa.Value, d int) bool {
	if d > 10 || e == nil {
		return false
	}
	e = stripConv(e)
	if e == v {
		return true
	}
	if bo, ok := e.(*ssa.BinOp); ok {
		switch bo.Op {
		case token.ADD, token.MUL:
			return monotoneTerm(bo.X, v, d+1) || monotoneTerm(bo.Y, v, d+1)
		}
	}
	return false
}

func stripConv(v ssa.Value) ssa.Value {
	for {
		switch x := v.(type) {
		case *ssa.Convert:
			v = x.X
		case *ssa.ChangeType:
			v = x.X
		default:
			return v
		}
	}
}

// wrapFree reports whether the integer expression v is evaluated without possible wrap-around, looking down to loads,
// calls, constants and widening conversions into 64 bits.
func wrapFree(v ssa.Value, d int) bool {
	if d > 12 {
		return false
	}
	switch x := v.(type) {
	case *ssa.Convert:
		tb, _, ok1 := intBits(x.Type(), false)
		sb, _, ok2 := intBits(x.X.Type(), false)
		if !ok1 || !ok2 {
			return false
		}
		if tb < sb {
			return false
		}
		if tb >= 64 {
			return true // widened into 64 bits: what is inside is a value of a narrower type, taken as is
		}
		return wrapFree(x.X, d+1)
	case *ssa.BinOp:
		bits, signed, ok := intBits(x.Type(), false)
		if !ok {
			return false
		}
		switch x.Op {
		case token.SUB:
			if !signed {
				return false
			}
			return bits >= 64 && wrapFree(x.X, d+1) && wrapFree(x.Y, d+1)
		case token.ADD, token.MUL, token.SHL:
			return bits >= 64 && wrapFree(x.X, d+1) && wrapFree(x.Y, d+1)
		}
		return true
	}
	return true
}

// ruleC15Thresholds: eligibility tests of pickForCompaction: a segment is skipped only when strictly below a threshold.
func ruleC15Thresholds(r *Run, p *Program, rule string) {
	f := p.Fn("(*pogreb.DB).pickForCompaction")
	if !r.anchor(rule, "(*pogreb.DB).pickForCompaction", f != nil) {
		return
	}
	r.fn(funcKey(f))
	n := 0
	for _, b := range f.Blocks {
		c := edgeCond(b, 0)
		if c == nil || c.X == nil {
			continue
		}
		for _, thr := range []string{"pogreb.Options.compactionMinFragmentation", "pogreb.Options.compactionMinSegmentSize"} {
			xr, yr := isFieldLoad(c.X, thr), isFieldLoad(c.Y, thr)
			if !xr && !yr {
				continue
			}
			n++
			// which edge skips the segment: the one that leads back to the loop without reaching an append
			strict := (yr && c.Op == token.LSS) || (xr && c.Op == token.GTR)
			r.check(strict, rule, funcKey(f)+":"+strings.TrimPrefix(thr, "pogreb.Options."), p.Pos(c.If.Cond.Pos()),
				"a segment is skipped only when strictly below the threshold", "the eligibility test against "+strings.TrimPrefix(thr, "pogreb.Options.")+" is not 'value < threshold => skip' ("+valString(c.If.Cond)+"): a segment exactly at the threshold - e.g. a completely dead full segment, whose fragmentation is exactly 0.5 with the header counted - is never compacted and dead segments accumulate")
			// and the true edge of "<" is the skipping one
			if strict {
				var app ssa.Instruction
				instrsOf(f, func(in ssa.Instruction) {
					if cc, ok := in.(*ssa.Call); ok {
						if bi, ok := cc.Call.Value.(*ssa.Builtin); ok && bi.Name() == "append" {
							app = cc
						}
					}
				})
				if inCycle(b) {
					// skipping a segment goes on to the next one: the loop is not left
					stays := b.Succs[0] == b || sameCycle(b.Succs[0], b)
					r.check(stays, rule, funcKey(f)+":"+strings.TrimPrefix(thr, "pogreb.Options.")+":skip-continues", p.Pos(c.If.Cond.Pos()), "a segment below the threshold is skipped and the scan goes on", "a segment below the threshold ends the scan instead of being skipped: every older segment behind a small one (typically the current segment right after a rollover) is hidden from compaction and nothing is reclaimed")
				}
				if app != nil {
					skips := edgeDominatesNot(f, b, 0, app)
					r.check(skips, rule, funcKey(f)+":"+strings.TrimPrefix(thr, "pogreb.Options.")+":skip-edge", p.Pos(c.If.Cond.Pos()), "below the threshold the segment is not picked", "the segment is picked when below the threshold and skipped otherwise (inverted test)")
				}
			}
		}
	}
	r.universe(rule, n, 2)
}

// onlyUnderAny: every static call chain into f starts below one of the functions in roots (closures count as their parent; bound 4).
func onlyUnderAny(p *Program, f *ssa.Function, roots map[string]bool, d int) bool {
	for f.Parent() != nil {
		f = f.Parent()
	}
	if roots[funcKey(f)] {
		return true
	}
	if d > 4 {
		return false
	}
	cs := staticCallersOf(p, f)
	if len(cs) == 0 {
		return false
	}
	for _, c := range cs {
		if !onlyUnderAny(p, c, roots, d+1) {
			return false
		}
	}
	return true
}

// ruleSealSites: sealing a segment makes the next write open a new segment file, so where segments are sealed bounds
// how many files a workload creates. The reviewed seal sites are: the current segment when a record does not fit
// (writeRecord), the segments picked for compaction (Compact/compact), and every segment but the newest after a
// replay (recover). A segment sealed anywhere else - e.g. on every Open - leaves a short, never-compacted segment
// behind each time.
func ruleSealSites(r *Run, p *Program, rule string) {
	roots := map[string]bool{"(*pogreb.datalog).writeRecord": true, "(*pogreb.DB).Compact": true, "(*pogreb.DB).compact": true, "(*pogreb.DB).recover": true}
	n := 0
	for _, st := range storesToField(p, "pogreb.segmentMeta.Full") {
		if bv, isc := constBool(st.Val); isc && !bv {
			// a sealed segment is never made writable again: a newer segment may already exist, and the one the
			// datalog appends to must be the newest in sequence order
			r.bad(rule, funcKey(st.Parent())+":unseals", p.Pos(st.Pos()), "a segment is marked not full again in "+funcKey(st.Parent())+": two segments are writable, swapSegment later appends to the one with the older sequence id, and recovery replays those records before older ones (old values win)")
			continue
		}
		n++
		f := st.Parent()
		r.fn(funcKey(f))
		r.check(onlyUnderAny(p, f, roots, 0), rule, funcKey(f)+":seals", p.Pos(st.Pos()),
			"segments are marked full only below writeRecord (record does not fit), Compact/compact (picked segments) and recover (all but the newest after replay)",
			"a segment is marked full in "+funcKey(f)+", which is reachable outside the reviewed seal sites (writeRecord, Compact, compact, recover): every such seal makes the next write create a new segment file; sealing on a path taken routinely (Open, Sync, Close) leaves one short segment, with its side file, descriptor and mapping, behind each time and they are too small to be picked for compaction")
	}
	r.universe(rule, n, 1)
}
