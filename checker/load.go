package main

import (
	"fmt"
	"go/ast"
	"go/token"
	"go/types"
	"os"
	"sort"
	"strings"

	"golang.org/x/tools/go/callgraph"
	"golang.org/x/tools/go/callgraph/cha"
	"golang.org/x/tools/go/callgraph/vta"
	"golang.org/x/tools/go/packages"
	"golang.org/x/tools/go/ssa"
	"golang.org/x/tools/go/ssa/ssautil"
)

const (
	modPath = "github.com/akrylysov/pogreb"
	fsPath  = modPath + "/fs"
)

// Config is one build configuration that is loaded and analysed.
type Config struct {
	GOOS, GOARCH string
	Tags         string
}

func (c Config) String() string {
	s := c.GOOS + "/" + c.GOARCH
	if c.Tags != "" {
		s += "+" + c.Tags
	}
	return s
}

// Program is a loaded, type-checked configuration of the repository with its SSA form.
type Program struct {
	Cfg   Config
	Repo  string
	Fset  *token.FileSet
	Pkgs  []*packages.Package
	Main  *packages.Package // package pogreb
	FS    *packages.Package // package pogreb/fs
	SSA   *ssa.Program
	MainS *ssa.Package
	FSS   *ssa.Package

	allFuncs map[*ssa.Function]bool
	byName   map[string]*ssa.Function
	cg       *callgraph.Graph // VTA
	chaCG    *callgraph.Graph
}

func Load(repo string, cfg Config, needSSA bool) (*Program, error) {
	env := append(os.Environ(),
		"GOFLAGS=-mod=mod", "GOPROXY=off", "GOSUMDB=off", "GOTOOLCHAIN=local", "GOWORK=off",
		"CGO_ENABLED=0", "GOOS="+cfg.GOOS, "GOARCH="+cfg.GOARCH)
	pc := &packages.Config{
		Mode:  packages.LoadAllSyntax,
		Dir:   repo,
		Env:   env,
		Tests: false,
	}
	if cfg.Tags != "" {
		pc.BuildFlags = []string{"-tags=" + cfg.Tags}
	}
	pkgs, err := packages.Load(pc, "./...")
	if err != nil {
		return nil, fmt.Errorf("load %s: %v", cfg, err)
	}
	p := &Program{Cfg: cfg, Repo: repo, Pkgs: pkgs}
	var errs []string
	packages.Visit(pkgs, nil, func(pk *packages.Package) {
		for _, e := range pk.Errors {
			errs = append(errs, e.Error())
		}
	})
	if len(errs) > 0 {
		sort.Strings(errs)
		if len(errs) > 8 {
			errs = errs[:8]
		}
		return nil, fmt.Errorf("load %s: the tree does not type-check: %s", cfg, strings.Join(errs, "; "))
	}
	for _, pk := range pkgs {
		switch pk.PkgPath {
		case modPath:
			p.Main = pk
		case fsPath:
			p.FS = pk
		}
		if p.Fset == nil {
			p.Fset = pk.Fset
		}
	}
	if p.Main == nil || p.FS == nil || len(pkgs) < 3 {
		return nil, fmt.Errorf("load %s: expected packages %s and %s among >=3 module packages, got %d packages", cfg, modPath, fsPath, len(pkgs))
	}
	if !needSSA {
		return p, nil
	}
	prog, spkgs := ssautil.AllPackages(pkgs, ssa.InstantiateGenerics)
	prog.Build()
	p.SSA = prog
	for i, pk := range pkgs {
		switch pk.PkgPath {
		case modPath:
			p.MainS = spkgs[i]
		case fsPath:
			p.FSS = spkgs[i]
		}
	}
	p.allFuncs = ssautil.AllFunctions(prog)
	curProgram = p
	p.resolveRenames()
	p.resolveDevirt()
	p.byName = map[string]*ssa.Function{}
	for f := range p.allFuncs {
		if f.Pkg == nil || !strings.HasPrefix(f.Pkg.Pkg.Path(), modPath) {
			continue
		}
		if f.Synthetic != "" && !strings.HasPrefix(f.Synthetic, "package init") {
			// wrappers, bound methods, thunks: not source functions
			if f.Syntax() == nil {
				continue
			}
		}
		p.byName[funcKey(f)] = f
	}
	return p, nil
}

// funcKey is the stable name of a module function: "pogreb.Open", "pogreb.(*DB).Put",
// "pogreb.(*DB).Get$1", "fs.(*memFS).OpenFile".
func funcKey(f *ssa.Function) string {
	if a, ok := fnAlias[f]; ok {
		return a
	}
	if par := f.Parent(); par != nil {
		// closures are named after their (possibly renamed) parent
		if pk, rk := funcKey(par), rawKey(par); pk != rk {
			return pk + strings.TrimPrefix(rawKey(f), rk)
		}
	}
	return rawKey(f)
}

// Fn returns the module function with the given key or nil.
func (p *Program) Fn(key string) *ssa.Function {
	if f := p.byName[key]; f != nil {
		return f
	}
	// a method may have been moved between value and pointer receiver: "(pogreb.T).M" <-> "(*pogreb.T).M"
	if strings.HasPrefix(key, "(*") {
		return p.byName["("+strings.TrimPrefix(key, "(*")]
	}
	if strings.HasPrefix(key, "(") {
		return p.byName["(*"+strings.TrimPrefix(key, "(")]
	}
	return nil
}

// ModuleFuncs returns all source functions (incl. closures) of the module packages, sorted by key.
func (p *Program) ModuleFuncs(pkgPrefix string) []*ssa.Function {
	var out []*ssa.Function
	for k, f := range p.byName {
		if strings.HasPrefix(k, pkgPrefix) && f.Blocks != nil {
			out = append(out, f)
		}
	}
	sort.Slice(out, func(i, j int) bool { return funcKey(out[i]) < funcKey(out[j]) })
	return out
}

func (p *Program) VTA() *callgraph.Graph {
	if p.cg == nil {
		p.chaCG = cha.CallGraph(p.SSA)
		p.cg = vta.CallGraph(p.allFuncs, p.chaCG)
	}
	return p.cg
}

func (p *Program) CHA() *callgraph.Graph {
	if p.chaCG == nil {
		p.chaCG = cha.CallGraph(p.SSA)
	}
	return p.chaCG
}

// Pos renders a position relative to the repository root.
func (p *Program) Pos(pos token.Pos) string {
	if !pos.IsValid() {
		return "-"
	}
	ps := p.Fset.Position(pos)
	fn := strings.TrimPrefix(ps.Filename, p.Repo+"/")
	return fmt.Sprintf("%s:%d", fn, ps.Line)
}

// NamedType finds a named type in package pogreb or fs.
func (p *Program) NamedType(pkg *packages.Package, name string) *types.Named {
	obj := pkg.Types.Scope().Lookup(name)
	if obj == nil {
		return nil
	}
	n, _ := obj.Type().(*types.Named)
	return n
}

// FieldOf returns the field object name of struct type tname in pkg.
func (p *Program) FieldOf(pkg *packages.Package, tname, fname string) *types.Var {
	n := p.NamedType(pkg, tname)
	if n == nil {
		return nil
	}
	st, ok := n.Underlying().(*types.Struct)
	if !ok {
		return nil
	}
	for i := 0; i < st.NumFields(); i++ {
		if st.Field(i).Name() == fname {
			return st.Field(i)
		}
	}
	return nil
}

// FuncDecl finds the AST declaration of a function or method in package pogreb/fs: "recv.name" or "name".
func (p *Program) FuncDecl(pkg *packages.Package, recv, name string) *ast.FuncDecl {
	for _, f := range pkg.Syntax {
		for _, d := range f.Decls {
			fd, ok := d.(*ast.FuncDecl)
			if !ok || fd.Name.Name != name {
				continue
			}
			if recv == "" && fd.Recv == nil {
				return fd
			}
			if recv != "" && fd.Recv != nil && len(fd.Recv.List) == 1 {
				t := fd.Recv.List[0].Type
				if s, ok := t.(*ast.StarExpr); ok {
					t = s.X
				}
				if id, ok := t.(*ast.Ident); ok && id.Name == recv {
					return fd
				}
			}
		}
	}
	return nil
}
