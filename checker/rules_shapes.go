package main

import (
	"fmt"
	"strings"

	"golang.org/x/tools/go/ssa"
)

// Reviewed definitions of the small kernel functions of the index and the log reader. Each is compared as a set of
// canonical effects (stores, returns) and branch conditions - parameters by position, fields by qualified name, locals
// expanded - so renaming, hoisting a sub-expression into a local, or restructuring if/else does not change it, while a
// changed operator, constant, field or a dropped step does.
// kernelAlternatives: other reviewed, equivalent formulations of a kernel function.
var kernelAlternatives = map[string][][]string{
	"(*pogreb.bucket).del": {
		{ // shift with copy(), then clear the last slot
			"return ",
			"store p0.slots[30] = zero",
		},
	},
}

var kernelShapes = map[string]struct {
	want        []string
	what        string
	consequence string
}{
	"(*pogreb.index).bucketIndex": {
		[]string{
			"return (p1&((1<<(p0.level+1))-1))",
			"return (p1&((1<<p0.level)-1))",
			"if ((p1&((1<<p0.level)-1))<p0.splitBucketIdx)",
		},
		"linear-hashing address: hash mod 2^level, or mod 2^(level+1) when that bucket was already split",
		"Keys are looked up in a different bucket than the one they were stored in (or than the pinned version stored them in).",
	},
	"(*pogreb.bucket).del": {
		[]string{
			"return ",
			"store p0.slots[phi] = p0.slots[(phi+1)] [loop]",
			"store p0.slots[phi] = zero",
			"if (phi<30)",
		},
		"delete = shift the following slots of the bucket down by one and clear the last",
		"A removal loses or duplicates a neighbouring slot, or leaves a hole that hides the slots behind it.",
	},
	"(*pogreb.slotWriter).insert": {
		[]string{
			"return (*pogreb.index).createOverflowBucket(p2)#1",
			"return nil",
			"store new:[1]*github.com/akrylysov/pogreb.bucketHandle[0] = p0.bucket",
			"store p0.bucket = (*pogreb.index).createOverflowBucket(p2)#0",
			"store p0.bucket.bucket.next = (*pogreb.index).createOverflowBucket(p2)#0.offset",
			"store p0.bucket.bucket.slots[p0.slotIdx] = p1",
			"store p0.prevBuckets = append(p0.prevBuckets,new:[1]*github.com/akrylysov/pogreb.bucketHandle[:])",
			"store p0.slotIdx = (p0.slotIdx+1)",
			"store p0.slotIdx = 0",
			"if ((*pogreb.index).createOverflowBucket(p2)#1!=nil)",
			"if (p0.slotIdx==31)",
		},
		"insert = when the bucket is full (31 slots) link a new overflow bucket, remember the full one for writing, continue at slot 0; then store the slot and advance",
		"A chain loses its overflow link, a full bucket is not written, or a slot is stored at the wrong position.",
	},
	"(*pogreb.index).createOverflowBucket": {
		[]string{
			"return new:pogreb.bucketHandle, nil",
			"return nil, (*pogreb.file).extend(p0.overflow,512)#1",
			"store new:pogreb.bucketHandle.file = p0.overflow",
			"store new:pogreb.bucketHandle.offset = p0.freeBucketOffs[0]",
			"store new:pogreb.bucketHandle.offset = (*pogreb.file).extend(p0.overflow,512)#0",
			"store p0.freeBucketOffs = p0.freeBucketOffs[1:]",
			"if ((*pogreb.file).extend(p0.overflow,512)#1!=nil)",
			"if (len(p0.freeBucketOffs)>0)",
		},
		"overflow bucket = first free offset (removed from the free list) or a new 512-byte bucket appended to the overflow file",
		"A freed bucket is handed out twice (two chains share it) or never reused.",
	},
	"(*pogreb.bucketIterator).next": {
		[]string{
			"return local:pogreb.bucketHandle, nil",
			"return zero, (*pogreb.bucketHandle).read(new:pogreb.bucketHandle)",
			"return zero, pogreb.ErrIterationDone",
			"store new:pogreb.bucketHandle.file = p0.f",
			"store new:pogreb.bucketHandle.offset = p0.off",
			"store p0.f = p0.overflow",
			"store p0.off = new:pogreb.bucketHandle.bucket.next",
			"if ((*pogreb.bucketHandle).read(new:pogreb.bucketHandle)!=nil)",
			"if (p0.off==0)",
		},
		"chain iteration = read the bucket at the current offset, continue in the overflow file at its next pointer, done when the pointer is 0",
		"Chains are cut short or continue in the wrong file.",
	},
	"(*pogreb.index).newBucketIterator": {
		[]string{
			"return new:pogreb.bucketIterator",
			"store new:pogreb.bucketIterator.f = p0.main",
			"store new:pogreb.bucketIterator.off = pogreb.bucketOffset(p1)",
			"store new:pogreb.bucketIterator.overflow = p0.overflow",
		},
		"a chain starts in the main index file at bucketOffset(index)",
		"Chains start at the wrong bucket or in the wrong file.",
	},
	"(pogreb.slot).kvSize": {
		[]string{"return (uint32(new:pogreb.slot.keySize)+new:pogreb.slot.valueSize)"},
		"kvSize = keySize + valueSize in 32 bits",
		"Reads through the index return too few / too many bytes.",
	},
	"pogreb.encodedRecordSize": {
		[]string{"return ((6+p0)+4)"},
		"encoded record size = 2+4+K+V+4",
		"Records are framed differently from the documented format.",
	},
	"(*pogreb.datalog).readKey": {
		[]string{
			"return fs.File.Slice(p0.segments[new:pogreb.slot.segmentID].file.File,(int64(new:pogreb.slot.offset)+6),((int64(new:pogreb.slot.offset)+6)+int64(new:pogreb.slot.keySize)))#0, fs.File.Slice(p0.segments[new:pogreb.slot.segmentID].file.File,(int64(new:pogreb.slot.offset)+6),((int64(new:pogreb.slot.offset)+6)+int64(new:pogreb.slot.keySize)))#1",
		},
		"the key of a slot is the keySize bytes at record offset + 6 in the slot's segment",
		"Look-ups compare against bytes that are not the stored key.",
	},
	"(*pogreb.datalog).readKeyValue": {
		[]string{
			"return fs.File.Slice(p0.segments[new:pogreb.slot.segmentID].file.File,(int64(new:pogreb.slot.offset)+6),((int64(new:pogreb.slot.offset)+6)+int64((pogreb.slot).kvSize(p1))))#0[:new:pogreb.slot.keySize], fs.File.Slice(p0.segments[new:pogreb.slot.segmentID].file.File,(int64(new:pogreb.slot.offset)+6),((int64(new:pogreb.slot.offset)+6)+int64((pogreb.slot).kvSize(p1))))#0[new:pogreb.slot.keySize:], nil",
			"return nil, nil, fs.File.Slice(p0.segments[new:pogreb.slot.segmentID].file.File,(int64(new:pogreb.slot.offset)+6),((int64(new:pogreb.slot.offset)+6)+int64((pogreb.slot).kvSize(p1))))#1",
			"if (fs.File.Slice(p0.segments[new:pogreb.slot.segmentID].file.File,(int64(new:pogreb.slot.offset)+6),((int64(new:pogreb.slot.offset)+6)+int64((pogreb.slot).kvSize(p1))))#1!=nil)",
		},
		"key and value of a slot are the keySize / valueSize bytes at record offset + 6 in the slot's segment",
		"Values returned by Get / Items are not the bytes that were stored.",
	},
	"(*pogreb.slotWriter).write": {
		[]string{
			"return (*pogreb.bucketHandle).write(p0.bucket)",
			"return (*pogreb.bucketHandle).write(p0.prevBuckets[phi])",
			"if ((*pogreb.bucketHandle).write(p0.prevBuckets[phi])!=nil)",
			"if (phi>=0)",
		},
		"all filled buckets of the chain are written, then the last one",
		"A bucket of a chain is not written: its slots and its overflow link are lost.",
	},
}

// kernelGuards: reviewed (effect, condition, truth) triples of kernel functions - which branch does what. The set of
// effects and the set of conditions alone would not notice two branches being swapped. Conditions are in the
// normal form of normCondText, so an inverted test with swapped branches reads the same; an effect that a
// reviewed alternative formulation does not have is skipped.
var kernelGuards = map[string][]string{
	"(*pogreb.index).bucketIndex": {
		"return (p1&((1<<(p0.level+1))-1)) when ((p1&((1<<p0.level)-1))<p0.splitBucketIdx)=true",
		"return (p1&((1<<p0.level)-1)) when ((p1&((1<<p0.level)-1))<p0.splitBucketIdx)=false",
	},
	"(*pogreb.bucket).del": {
		"store p0.slots[phi] = p0.slots[(phi+1)] [loop] when (phi<30)=true",
		"store p0.slots[phi] = zero when (phi<30)=false",
	},
	"(*pogreb.slotWriter).insert": {
		"store p0.bucket = (*pogreb.index).createOverflowBucket(p2)#0 when (31==p0.slotIdx)=true",
		"store p0.bucket.bucket.next = (*pogreb.index).createOverflowBucket(p2)#0.offset when (31==p0.slotIdx)=true",
		"store p0.prevBuckets = append(p0.prevBuckets,new:[1]*github.com/akrylysov/pogreb.bucketHandle[:]) when (31==p0.slotIdx)=true",
		"store p0.slotIdx = 0 when (31==p0.slotIdx)=true",
	},
	"(*pogreb.index).createOverflowBucket": {
		"store p0.freeBucketOffs = p0.freeBucketOffs[1:] when (0<len(p0.freeBucketOffs))=true",
		"return nil, (*pogreb.file).extend(p0.overflow,512)#1 when (0<len(p0.freeBucketOffs))=false",
	},
	"(*pogreb.slotWriter).write": {
		"return (*pogreb.bucketHandle).write(p0.bucket) when (phi<0)=true",
	},
	"(*pogreb.bucketIterator).next": {
		"return zero, pogreb.ErrIterationDone when (0==p0.off)=true",
		"store p0.f = p0.overflow when (0==p0.off)=false",
		"store p0.off = new:pogreb.bucketHandle.bucket.next when ((*pogreb.bucketHandle).read(new:pogreb.bucketHandle)==nil)=true",
	},
}

// checkGuards verifies the reviewed branch bindings of kernel function k.
func checkGuards(r *Run, p *Program, rule, k string) {
	triples := kernelGuards[k]
	f := p.Fn(k)
	if len(triples) == 0 || f == nil {
		return
	}
	have := map[string]bool{}
	for _, g := range effectGuards(f) {
		have[g] = true
	}
	effs := map[string]bool{}
	for _, e := range effects(f) {
		effs[e] = true
	}
	var bad []string
	n := 0
	for _, t := range triples {
		i := strings.LastIndex(t, " when ")
		if i < 0 || !effs[t[:i]] {
			continue // the effect is absent (alternative formulation); the effect sets are compared separately
		}
		n++
		if !have[t] {
			bad = append(bad, t)
		}
	}
	if len(bad) == 0 {
		if n > 0 {
			r.ok(rule, k+":branches", p.Pos(f.Pos()), fmt.Sprintf("%d effects sit on the reviewed side of their branch condition", n), true)
		}
		return
	}
	s := kernelShapes[k]
	r.bad(rule, k+":branches", p.Pos(f.Pos()), k+" performs a reviewed effect on the other side of its branch condition (expected: "+strings.Join(bad, "; ")+"). "+s.consequence)
}

func ruleKernelShapes(keys ...string) ruleFn {
	return func(r *Run, p *Program, rule string) {
		for _, k := range keys {
			if p.Fn(k) == nil {
				// the function was renamed or folded into another: the definition it pinned is not decided (reported in the
				// evidence), the path/flow rules of the property still apply
				r.advisory(rule, k, "", "reviewed definition not checked: function "+k+" not found under this name")
				continue
			}
			s, ok := kernelShapes[k]
			if !r.anchor(rule, "reviewed shape of "+k, ok) {
				continue
			}
			if alts := kernelAlternatives[k]; len(alts) > 0 && matchesAlternative(p, k, alts) {
				r.ok(rule, k, p.Pos(p.Fn(k).Pos()), s.what+" (reviewed alternative formulation)", true)
				checkGuards(r, p, rule, k)
				continue
			}
			checkShape(r, p, rule, k, s.want, s.what, s.consequence)
			checkGuards(r, p, rule, k)
		}
		r.universe(rule, len(keys), 1)
	}
}

// matchesAlternative: the function's effects equal one of the alternative effect sets, and (for bucket.del) the copy call
// shifts slots[i+1:] onto slots[i:].
func matchesAlternative(p *Program, key string, alts [][]string) bool {
	f := p.Fn(key)
	if f == nil {
		return false
	}
	got := effects(f)
	for _, alt := range alts {
		if len(got) != len(alt) {
			continue
		}
		same := true
		for i := range alt {
			if got[i] != alt[i] {
				same = false
			}
		}
		if !same {
			continue
		}
		if key == "(*pogreb.bucket).del" {
			okCopy := false
			instrsOf(f, func(in ssa.Instruction) {
				c, ok := in.(*ssa.Call)
				if !ok {
					return
				}
				if b, ok := c.Call.Value.(*ssa.Builtin); ok && b.Name() == "copy" && len(c.Call.Args) == 2 {
					okCopy = canon(c.Call.Args[0]) == "&p0.slots[p1:]" && canon(c.Call.Args[1]) == "&p0.slots[(p1+1):]"
				}
			})
			return okCopy
		}
		return true
	}
	return false
}
