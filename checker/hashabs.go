package main

import (
	"fmt"
	"go/token"
	"go/types"
	"sort"
	"strings"

	"golang.org/x/tools/go/ssa"
)

// Hash absorption order.
//
// The 32-bit key hash picks the bucket and is stored in every index slot: it is part of the on-disk format. What the
// hash computes is a numerical question no static argument here can settle. One necessary condition of "the same
// function of the key's bytes" is structural, though, and it is exactly what optimised rewrites get wrong: the input
// is absorbed into the running state front to back, each word little-endian, and the cursor advances by what was
// absorbed. The analysis builds, for every value flowing into a state phi, an expression tree in which byte
// assemblies are folded into words with known byte lanes (lane j holds input byte base+off); following the state
// operand from the old state outwards gives the order in which words are absorbed.

type lane struct {
	base ssa.Value // the []byte cursor the byte is read from (nil: lane is zero)
	off  int
}

type hnode struct {
	kind  string // "word", "state", "const", "other", "op"
	lanes []lane // word
	kids  []*hnode
	v     ssa.Value
	zero  bool // const zero
}

type hashEnv struct {
	params map[*ssa.Parameter]*hnode
	depth  int
}

func uintBytes(t types.Type) int {
	b, ok := t.Underlying().(*types.Basic)
	if !ok {
		return 0
	}
	switch b.Kind() {
	case types.Uint8:
		return 1
	case types.Uint16:
		return 2
	case types.Uint32:
		return 4
	case types.Uint64:
		return 8
	}
	return 0
}

// sliceCursor resolves a []byte value to (cursor, constant offset): data, data[4:], data[8:][4:] ...
func sliceCursor(v ssa.Value, env *hashEnv) (ssa.Value, int, bool) {
	off := 0
	for d := 0; d < 10; d++ {
		switch x := v.(type) {
		case *ssa.Slice:
			if x.High != nil || x.Max != nil {
				return nil, 0, false
			}
			if x.Low != nil {
				k, ok := constInt(x.Low)
				if !ok {
					return nil, 0, false
				}
				off += int(k)
			}
			v = x.X
			continue
		case *ssa.Parameter:
			if env != nil {
				if b, ok := env.params[x]; ok && b.kind == "cursor" {
					return b.v, off + b.lanes[0].off, true
				}
			}
			return x, off, true
		case *ssa.Phi:
			return x, off, true
		}
		return nil, 0, false
	}
	return nil, 0, false
}

func wordNode(l []lane, v ssa.Value) *hnode { return &hnode{kind: "word", lanes: l, v: v} }

func emptyLanes(n int) []lane { return make([]lane, n) }

func hasByte(l []lane) bool {
	for _, x := range l {
		if x.base != nil {
			return true
		}
	}
	return false
}

// hbuild builds the tree of v.
func hbuild(v ssa.Value, env *hashEnv, seen map[ssa.Value]bool) *hnode {
	v = strip(v)
	switch x := v.(type) {
	case *ssa.Const:
		n := &hnode{kind: "const", v: v}
		if k, ok := constInt(x); ok && k == 0 {
			n.zero = true
			if w := uintBytes(x.Type()); w > 0 {
				n.lanes = emptyLanes(w)
			}
		}
		return n
	case *ssa.Parameter:
		if env != nil {
			if b, ok := env.params[x]; ok {
				return b
			}
		}
		if _, isSlice := x.Type().Underlying().(*types.Slice); isSlice {
			return &hnode{kind: "cursor", v: x, lanes: []lane{{x, 0}}}
		}
		return &hnode{kind: "state", v: v}
	case *ssa.Phi:
		// a phi of byte assemblies is itself an assembly (the tail switch builds k1 across fallthrough cases)
		if w := uintBytes(x.Type()); w > 0 && !seen[x] {
			seen[x] = true
			merged := emptyLanes(w)
			ok := true
			for _, e := range x.Edges {
				k := hbuild(e, env, seen)
				var l []lane
				switch {
				case k.kind == "word":
					l = k.lanes
				case k.kind == "const" && k.zero:
					l = emptyLanes(w)
				default:
					ok = false
				}
				if !ok || len(l) != w {
					ok = false
					break
				}
				for j := range l {
					if l[j].base == nil {
						continue
					}
					if merged[j].base != nil && merged[j] != l[j] {
						ok = false
					}
					merged[j] = l[j]
				}
			}
			delete(seen, x)
			if ok && hasByte(merged) {
				return wordNode(merged, v)
			}
		}
		if _, isSlice := x.Type().Underlying().(*types.Slice); isSlice {
			return &hnode{kind: "cursor", v: x, lanes: []lane{{x, 0}}}
		}
		return &hnode{kind: "state", v: v}
	case *ssa.UnOp:
		if x.Op == token.MUL {
			if ia, ok := x.X.(*ssa.IndexAddr); ok {
				if i, isc := constInt(ia.Index); isc {
					if b, off, ok := sliceCursor(ia.X, env); ok {
						return wordNode([]lane{{b, off + int(i)}}, v)
					}
				}
			}
			return &hnode{kind: "other", v: v}
		}
		return &hnode{kind: "op", v: v, kids: []*hnode{hbuild(x.X, env, seen)}}
	case *ssa.Convert:
		k := hbuild(x.X, env, seen)
		w := uintBytes(x.Type())
		if k.kind == "word" && w > 0 {
			l := make([]lane, w)
			copy(l, k.lanes)
			if hasByte(l) {
				return wordNode(l, v)
			}
			return &hnode{kind: "const", zero: true, lanes: l, v: v}
		}
		if k.kind == "state" || k.kind == "op" {
			return &hnode{kind: "op", v: v, kids: []*hnode{k}}
		}
		return &hnode{kind: "other", v: v}
	case *ssa.BinOp:
		a, b := hbuild(x.X, env, seen), hbuild(x.Y, env, seen)
		w := uintBytes(x.Type())
		lanesOf := func(n *hnode) ([]lane, bool) {
			if n.kind == "word" || (n.kind == "const" && n.zero && n.lanes != nil) {
				return n.lanes, true
			}
			return nil, false
		}
		switch x.Op {
		case token.SHL, token.SHR:
			if la, ok := lanesOf(a); ok && w > 0 && len(la) == w {
				if k, isc := constInt(x.Y); isc && k%8 == 0 {
					s := int(k / 8)
					l := emptyLanes(w)
					for j := range la {
						t := j + s
						if x.Op == token.SHR {
							t = j - s
						}
						if t >= 0 && t < w {
							l[t] = la[j]
						}
					}
					if hasByte(l) {
						return wordNode(l, v)
					}
					return &hnode{kind: "const", zero: true, lanes: l, v: v}
				}
			}
		case token.OR, token.XOR, token.ADD:
			la, oka := lanesOf(a)
			lb, okb := lanesOf(b)
			if oka && okb && len(la) == len(lb) {
				l := emptyLanes(len(la))
				disjoint := true
				for j := range la {
					switch {
					case la[j].base != nil && lb[j].base != nil:
						disjoint = false
					case la[j].base != nil:
						l[j] = la[j]
					default:
						l[j] = lb[j]
					}
				}
				if disjoint {
					if hasByte(l) {
						return wordNode(l, v)
					}
					return &hnode{kind: "const", zero: true, lanes: l, v: v}
				}
			}
		}
		return &hnode{kind: "op", v: v, kids: []*hnode{a, b}}
	case *ssa.Call:
		name := calleeKey(&x.Call)
		switch name {
		case "(encoding/binary.littleEndian).Uint16", "(encoding/binary.littleEndian).Uint32", "(encoding/binary.littleEndian).Uint64":
			w := uintBytes(x.Type())
			arg := x.Call.Args[len(x.Call.Args)-1]
			if b, off, ok := sliceCursor(arg, env); ok && w > 0 {
				l := make([]lane, w)
				for j := range l {
					l[j] = lane{b, off + j}
				}
				return wordNode(l, v)
			}
			return &hnode{kind: "other", v: v}
		}
		if bi, ok := x.Call.Value.(*ssa.Builtin); ok && (bi.Name() == "len" || bi.Name() == "cap") {
			return &hnode{kind: "other", v: v}
		}
		if g := x.Call.StaticCallee(); g != nil && g.Blocks != nil && inModule(g) && (env == nil || env.depth < 3) && len(returnsOf(g)) == 1 && len(returnsOf(g)[0].Results) == 1 {
			loops := false
			for _, b := range g.Blocks {
				if inCycle(b) {
					loops = true
				}
			}
			if !loops {
				ne := &hashEnv{params: map[*ssa.Parameter]*hnode{}}
				if env != nil {
					ne.depth = env.depth + 1
				}
				for i, pa := range g.Params {
					if i < len(x.Call.Args) {
						ne.params[pa] = hbuild(x.Call.Args[i], env, seen)
					}
				}
				return hbuild(returnsOf(g)[0].Results[0], ne, map[ssa.Value]bool{})
			}
		}
		n := &hnode{kind: "op", v: v}
		for _, a := range x.Call.Args {
			n.kids = append(n.kids, hbuild(a, env, seen))
		}
		return n
	}
	return &hnode{kind: "other", v: v}
}

// absorbed lists the words entering the state along the state operand, innermost (earliest) first.
func absorbed(n *hnode) (words []*hnode, hasState, ambiguous bool) {
	switch n.kind {
	case "state":
		return nil, true, false
	case "word":
		return []*hnode{n}, false, false
	case "op":
		var stateWords, dataWords []*hnode
		ns := 0
		for _, k := range n.kids {
			w, hs, amb := absorbed(k)
			if amb {
				ambiguous = true
			}
			if hs {
				ns++
				stateWords = append(stateWords, w...)
			} else {
				dataWords = append(dataWords, w...)
			}
		}
		if ns > 1 {
			ambiguous = true
		}
		return append(stateWords, dataWords...), ns > 0, ambiguous
	}
	return nil, false, false
}

func laneString(l []lane) string {
	var parts []string
	for _, x := range l {
		if x.base == nil {
			parts = append(parts, "-")
		} else {
			parts = append(parts, fmt.Sprint(x.off))
		}
	}
	return "[" + strings.Join(parts, " ") + "]"
}

// ruleHashAbsorption: see the comment at the top of this file.
func ruleHashAbsorption(r *Run, p *Program, rule string) {
	hf := p.Fn("(*pogreb.DB).hash")
	if !r.anchor(rule, "(*pogreb.DB).hash", hf != nil) {
		return
	}
	var f *ssa.Function
	instrsOf(hf, func(in ssa.Instruction) {
		if c, ok := in.(*ssa.Call); ok {
			if g := c.Call.StaticCallee(); g != nil && inModule(g) && g.Blocks != nil {
				f = g
			}
		}
	})
	if !r.anchor(rule, "the hash function called by (*DB).hash", f != nil) {
		return
	}
	r.fn(funcKey(f))
	nabs := 0
	var phis []*ssa.Phi
	for _, b := range f.Blocks {
		for _, in := range b.Instrs {
			ph, ok := in.(*ssa.Phi)
			if !ok {
				break
			}
			if uintBytes(ph.Type()) == 4 && hbuild(ph, nil, map[ssa.Value]bool{}).kind == "state" {
				phis = append(phis, ph)
			}
		}
	}
	sort.Slice(phis, func(i, j int) bool { return phis[i].Pos() < phis[j].Pos() })
	for _, ph := range phis {
		for ei, e := range ph.Edges {
			tree := hbuild(e, nil, map[ssa.Value]bool{})
			words, hasState, amb := absorbed(tree)
			if len(words) == 0 {
				continue
			}
			nabs++
			construct := fmt.Sprintf("%s:absorb@%s", funcKey(f), p.Pos(ph.Block().Preds[ei].Instrs[0].Pos()))
			construct = funcKey(f) + ":state-update"
			pos := p.Pos(instrPos(ph.Block().Preds[ei].Instrs[len(ph.Block().Preds[ei].Instrs)-1]))
			if amb || !hasState {
				r.undecided(rule, construct, pos, "cannot order the words absorbed into the hash state on this path (two state-dependent operands are combined, or the old state does not take part)")
				continue
			}
			var base ssa.Value
			next := 0
			okAll := true
			why := ""
			var seq []string
			for _, w := range words {
				seq = append(seq, laneString(w.lanes))
				full := true
				for _, l := range w.lanes {
					if l.base == nil {
						full = false
					}
				}
				for j, l := range w.lanes {
					if l.base == nil {
						continue
					}
					if base == nil {
						base = l.base
					}
					if l.base != base {
						okAll, why = false, "words of one state update are read from different cursors"
					}
					want := next + j
					if l.off != want {
						okAll = false
						if why == "" {
							why = fmt.Sprintf("lane %d of a word holds input byte %d where byte %d is due (bytes must enter front to back, each word little-endian)", j, l.off, want)
						}
					}
				}
				if full {
					next += len(w.lanes)
				} else if len(words) > 1 {
					okAll = false
					if why == "" {
						why = "a partial word is absorbed together with other words"
					}
				}
			}
			// the cursor advances by what was absorbed
			if okAll && next > 0 && base != nil {
				if cp, ok := base.(*ssa.Phi); ok && cp.Block() == ph.Block() && ei < len(cp.Edges) {
					b2, off, ok2 := sliceCursor(cp.Edges[ei], nil)
					if !ok2 || b2 != base || off != next {
						okAll, why = false, fmt.Sprintf("%d bytes are absorbed per step but the cursor does not advance by %d", next, next)
					}
				}
			}
			r.check(okAll, rule, construct, pos,
				"input words enter the hash state front to back, little-endian, and the cursor advances by the bytes absorbed (lanes "+strings.Join(seq, " then ")+")",
				"the key hash does not absorb its input in order (lanes "+strings.Join(seq, " then ")+"): "+why+". The hash selects the bucket and is stored in every index slot, so directories written by the pinned version no longer find their keys (Get/Has miss, Items still lists them)")
		}
	}
	r.universe(rule, nabs, 2)
}
