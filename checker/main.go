package main

import (
	"flag"
	"fmt"
	"os"
	"runtime/debug"
	"sort"
	"strconv"
	"strings"
)

type ruleFn func(r *Run, p *Program, rule string)

type ruleDef struct {
	Name string
	Fn   ruleFn
	// GOOS restriction: "" = every configuration, "unix" = not windows/plan9, "linux/amd64" = primary configuration only
	Only string
}

type propDef struct {
	Rules       []ruleDef
	Explanation string
	Assumptions []string
}

var registry = map[string]*propDef{}

func register(id string, d *propDef) { registry[id] = d }

var quickConfigs = []Config{{GOOS: "linux", GOARCH: "amd64"}}
var thoroughConfigs = []Config{
	{GOOS: "linux", GOARCH: "amd64"},
	{GOOS: "linux", GOARCH: "386"},
	{GOOS: "darwin", GOARCH: "arm64"},
	{GOOS: "windows", GOARCH: "amd64"},
	{GOOS: "linux", GOARCH: "amd64", Tags: "verif"},
}

func applies(rd ruleDef, c Config) bool {
	switch rd.Only {
	case "":
		return true
	case "unix":
		return c.GOOS != "windows" && c.GOOS != "plan9"
	case "primary":
		return c.GOOS == "linux" && c.GOARCH == "amd64" && c.Tags == ""
	}
	return true
}

// panicWhere names the checker frames of a recovered panic (with VERIF_DEBUG set).
func panicWhere() string {
	if os.Getenv("VERIF_DEBUG") == "" {
		return ""
	}
	var out []string
	for _, ln := range strings.Split(string(debug.Stack()), "\n") {
		if strings.Contains(ln, "/verif/checker/") {
			out = append(out, strings.TrimSpace(ln))
		}
	}
	if len(out) > 8 {
		out = out[:8]
	}
	return " at " + strings.Join(out, " < ")
}

func main() {
	repo := flag.String("repo", "/repo", "repository root (its current working tree is analysed)")
	out := flag.String("out", "/verif", "directory holding known_findings.txt, evidence/ and reports/")
	prop := flag.String("property", "", "property id (C01..C19)")
	tier := flag.String("tier", "quick", "quick | thorough")
	only := flag.String("rule", "", "run only this rule (replay)")
	dump := flag.Bool("dump", false, "dump function keys")
	list := flag.Bool("list", false, "list properties and their rules")
	dumpBase := flag.Bool("dump-baseline", false, "print the function baseline (key and body fingerprint per configuration) of the tree")
	flag.Parse()
	if *list {
		var ids []string
		for k := range registry {
			ids = append(ids, k)
		}
		sort.Strings(ids)
		for _, id := range ids {
			var ns []string
			for _, rd := range registry[id].Rules {
				ns = append(ns, rd.Name)
			}
			fmt.Printf("%s: %s\n", id, strings.Join(ns, ", "))
		}
		return
	}
	if *dumpBase {
		for _, c := range thoroughConfigs {
			p, err := Load(*repo, c, true)
			if err != nil {
				fmt.Fprintln(os.Stderr, err)
				os.Exit(2)
			}
			for _, ln := range baselineLines(p) {
				fmt.Println(ln)
			}
		}
		return
	}
	if *dump {
		p, err := Load(*repo, quickConfigs[0], true)
		if err != nil {
			fmt.Println(err)
			os.Exit(2)
		}
		for _, f := range p.ModuleFuncs("") {
			fmt.Println(funcKey(f))
		}
		if os.Getenv("VERIF_DUMP_STORES") != "" {
			dumpSharedStores(p)
			return
		}
		dumpLayouts(p)
		dumpShapes(p)
		return
	}
	if t := os.Getenv("VERIF_TIER"); t != "" && *tier == "" {
		*tier = t
	}
	if *prop == "all" {
		// development aid: one load per configuration, every property decided from it; prints one line per property
		var ids []string
		for k := range registry {
			ids = append(ids, k)
		}
		sort.Strings(ids)
		cfgs := quickConfigs
		if *tier == "thorough" {
			cfgs = thoroughConfigs
		}
		runs := map[string]*Run{}
		for _, id := range ids {
			runs[id] = NewRun(id, *tier)
		}
		for _, c := range cfgs {
			p, err := Load(*repo, c, true)
			for _, id := range ids {
				r := runs[id]
				if err != nil {
					r.fatal = append(r.fatal, err.Error())
					continue
				}
				r.cur = p
				r.Configs = append(r.Configs, c.String())
				for _, rd := range registry[id].Rules {
					if !applies(rd, c) {
						continue
					}
					func() {
						defer func() {
							if e := recover(); e != nil {
								r.fatal = append(r.fatal, fmt.Sprintf("rule %s panicked on %s: %v%s", rd.Name, c, e, panicWhere()))
							}
						}()
						rd.Fn(r, p, rd.Name)
					}()
				}
				r.cur = nil
			}
		}
		if os.Getenv("VERIF_DEBUG") != "" {
			fmt.Fprintln(os.Stderr, "largest interprocedural walk:", ipMaxSeen, "states")
		}
		code := 0
		var caught []string
		for _, id := range ids {
			if rc := runs[id].Finish(*out, 0, registry[id].Explanation+ruleList(registry[id]), registry[id].Assumptions); rc != 0 {
				code = 1
				caught = append(caught, id)
			}
		}
		fmt.Println("ALL caught-by:", strings.Join(caught, " "))
		os.Exit(code)
	}
	def := registry[*prop]
	if def == nil {
		var ids []string
		for k := range registry {
			ids = append(ids, k)
		}
		sort.Strings(ids)
		fmt.Printf("unknown property %q; known: %s\n", *prop, strings.Join(ids, " "))
		os.Exit(2)
	}
	seed, _ := strconv.ParseInt(os.Getenv("VERIF_SEED"), 10, 64)
	r := NewRun(*prop, *tier)
	cfgs := quickConfigs
	if *tier == "thorough" {
		cfgs = thoroughConfigs
	}
	abs := *repo
	for _, c := range cfgs {
		p, err := Load(abs, c, true)
		if err != nil {
			if c.GOOS == "linux" {
				r.fatal = append(r.fatal, err.Error())
			} else {
				// a foreign configuration that cannot be loaded is recorded, never silently skipped
				r.fatal = append(r.fatal, "configuration not analysed: "+err.Error())
			}
			continue
		}
		r.cur = p
		r.Configs = append(r.Configs, c.String())
		for _, rd := range def.Rules {
			if *only != "" && rd.Name != *only {
				continue
			}
			if !applies(rd, c) {
				continue
			}
			func() {
				defer func() {
					if e := recover(); e != nil {
						r.fatal = append(r.fatal, fmt.Sprintf("rule %s panicked on %s: %v%s", rd.Name, c, e, panicWhere()))
					}
				}()
				rd.Fn(r, p, rd.Name)
			}()
		}
		r.cur = nil
	}
	os.Exit(r.Finish(*out, seed, def.Explanation+ruleList(def), def.Assumptions))
}

// ruleList names the rules a property's check consists of (several are shared between properties: each is a necessary
// condition of every property it is listed under).
func ruleList(d *propDef) string {
	var ns []string
	for _, r := range d.Rules {
		ns = append(ns, r.Name)
	}
	return " || Rules evaluated by this check (a rule shared with another property is a necessary condition of both): " + strings.Join(ns, ", ") + "."
}
