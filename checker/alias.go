package main

import (
	"crypto/sha1"
	_ "embed"
	"fmt"
	"go/types"
	"sort"
	"strings"

	"golang.org/x/tools/go/ssa"
)

// Rename resolution against the reference tree.
//
// The rules name their anchors by function key ("(*pogreb.datalog).removeSegment"). A change that only renames an
// internal function, or turns a method into a free function (or back), leaves every property intact, so it must not
// unhinge the anchors. baseline_funcs.txt records, per build configuration, the key and a name-free fingerprint of the
// body of every module function of the reference tree. When a baseline key is missing from the loaded program and
// exactly one function that the baseline does not know has the same fingerprint (or, failing that, the same bare name
// with receiver and first parameter exchanged), that function is treated as the baseline function under its old key.
// Anything else stays unresolved and the rules' anchors fail closed as before.

//go:embed baseline_funcs.txt
var baselineFuncs string

// fieldAlias maps (struct type, field name in this tree) to the field's name in the reference tree, for unexported
// struct fields that were renamed (matched by name first, then by type and position among the unmatched ones).
var fieldAlias = map[string]map[string]string{}

// passThrough: (struct type, field name) pairs that select a helper struct the reference tree does not have - fields
// of a reference struct were moved into it (embedded or not). Such a selection is transparent: the helper's fields
// are aliased to the reference struct's fields they replace, and the selection itself has no name.
var passThrough = map[string]bool{}

// typeAlias: struct type of this tree -> the name the reference tree has for it.
var typeAlias = map[string]string{}

// fnAlias maps a function to the baseline key it stands for.
var fnAlias = map[*ssa.Function]string{}

// aliasNotes lists the resolutions applied (printed and recorded in the evidence).
var aliasNotes []string

func rawKey(f *ssa.Function) string {
	s := f.RelString(nil)
	s = strings.Replace(s, fsPath+".", "fs.", -1)
	s = strings.Replace(s, modPath+"/internal/", "internal/", -1)
	s = strings.Replace(s, modPath+".", "pogreb.", -1)
	s = strings.Replace(s, "(*"+fsPath+".", "fs.(*", -1) // not expected
	return s
}

func bareName(key string) string {
	if i := strings.LastIndex(key, "."); i >= 0 {
		return key[i+1:]
	}
	return key
}

// fingerprint is a hash of the body of f that does not depend on the names of f, of its parameters and locals, or of
// the module functions it calls.
func fingerprint(f *ssa.Function) string {
	var sb strings.Builder
	var rec func(f *ssa.Function)
	tstr := func(t types.Type) string { return types.TypeString(t, nil) }
	rec = func(f *ssa.Function) {
		fmt.Fprintf(&sb, "fn/%d/%d:", len(f.Params), len(f.FreeVars))
		for _, pa := range f.Params {
			sb.WriteString(tstr(pa.Type()) + ",")
		}
		sb.WriteString("->" + tstr(f.Signature.Results()) + "\n")
		for _, b := range f.Blocks {
			fmt.Fprintf(&sb, "b%d>", b.Index)
			for _, s := range b.Succs {
				fmt.Fprintf(&sb, "%d,", s.Index)
			}
			sb.WriteString("\n")
			for _, in := range b.Instrs {
				if _, ok := in.(*ssa.DebugRef); ok {
					continue
				}
				if fa, ok := in.(*ssa.FieldAddr); ok && fieldName(fa) == "" && derefStruct(fa.X.Type()) != nil {
					continue // selection of a pass-through helper struct
				}
				fmt.Fprintf(&sb, "%T", in)
				switch x := in.(type) {
				case *ssa.BinOp:
					sb.WriteString(" " + x.Op.String())
				case *ssa.UnOp:
					sb.WriteString(" " + x.Op.String())
				case *ssa.FieldAddr:
					sb.WriteString(" " + fieldName(x))
				case *ssa.Field:
					sb.WriteString(" " + fieldName(x))
				case ssa.CallInstruction:
					c := x.Common()
					switch {
					case c.IsInvoke():
						sb.WriteString(" invoke " + c.Method.FullName())
					case c.StaticCallee() != nil:
						g := c.StaticCallee()
						if g.Pkg != nil && strings.HasPrefix(g.Pkg.Pkg.Path(), modPath) || g.Parent() != nil {
							fmt.Fprintf(&sb, " modcall/%d", len(c.Args))
						} else {
							sb.WriteString(" " + g.String())
						}
					default:
						if bi, ok := c.Value.(*ssa.Builtin); ok {
							sb.WriteString(" builtin " + bi.Name())
						} else {
							sb.WriteString(" dyn")
						}
					}
				}
				if v, ok := in.(ssa.Value); ok {
					switch in.(type) {
					case *ssa.Convert, *ssa.ChangeType, *ssa.MakeInterface, *ssa.TypeAssert, *ssa.Alloc, *ssa.MakeSlice, *ssa.MakeMap, *ssa.MakeChan, *ssa.ChangeInterface, *ssa.SliceToArrayPointer:
						sb.WriteString(" :" + tstr(v.Type()))
					}
				}
				for _, op := range in.Operands(nil) {
					switch o := (*op).(type) {
					case *ssa.Const:
						sb.WriteString(" k=" + o.String())
					case *ssa.Global:
						sb.WriteString(" g=" + o.String())
					}
				}
				sb.WriteString("\n")
			}
		}
		for _, a := range f.AnonFuncs {
			rec(a)
		}
	}
	rec(f)
	return fmt.Sprintf("%x", sha1.Sum([]byte(sb.String())))[:16]
}

// topLevel lists the module's source functions that are not closures, by raw key.
func (p *Program) topLevel() map[string]*ssa.Function {
	out := map[string]*ssa.Function{}
	for f := range p.allFuncs {
		if f.Pkg == nil || !strings.HasPrefix(f.Pkg.Pkg.Path(), modPath) || f.Parent() != nil || f.Blocks == nil {
			continue
		}
		if f.Synthetic != "" && f.Syntax() == nil {
			continue
		}
		out[rawKey(f)] = f
	}
	return out
}

// structLines lists the fields of every named struct type of the module: "S <cfg> <type> <index> <name> <type of field>".
func structLines(p *Program) []string {
	var out []string
	for _, pk := range p.Pkgs {
		if !strings.HasPrefix(pk.PkgPath, modPath) {
			continue
		}
		sc := pk.Types.Scope()
		for _, nm := range sc.Names() {
			tn, ok := sc.Lookup(nm).(*types.TypeName)
			if !ok {
				continue
			}
			st, ok := tn.Type().Underlying().(*types.Struct)
			if !ok {
				continue
			}
			for i := 0; i < st.NumFields(); i++ {
				out = append(out, fmt.Sprintf("S\t%s\t%s\t%d\t%s\t%s", p.Cfg.String(), typeName(tn.Type()), i, st.Field(i).Name(), types.TypeString(st.Field(i).Type(), nil)))
			}
		}
	}
	sort.Strings(out)
	return out
}

// resolveFieldRenames fills fieldAlias for the loaded program.
func (p *Program) resolveFieldRenames() {
	type bf struct {
		idx       int
		name, typ string
	}
	base := map[string][]bf{}
	for _, ln := range strings.Split(baselineFuncs, "\n") {
		parts := strings.Split(ln, "\t")
		if len(parts) == 6 && parts[0] == "S" && parts[1] == p.Cfg.String() {
			var i int
			fmt.Sscan(parts[3], &i)
			base[parts[2]] = append(base[parts[2]], bf{i, parts[4], parts[5]})
		}
	}
	// renamed struct types: a struct the reference tree does not have whose field types are, in order, those of a
	// reference struct this tree does not have
	cur := map[string]*types.Struct{}
	for _, pk := range p.Pkgs {
		if !strings.HasPrefix(pk.PkgPath, modPath) {
			continue
		}
		sc := pk.Types.Scope()
		for _, nm := range sc.Names() {
			if tn, ok := sc.Lookup(nm).(*types.TypeName); ok {
				if st, ok := tn.Type().Underlying().(*types.Struct); ok {
					cur[typeName(tn.Type())] = st
				}
			}
		}
	}
	var curNames []string
	for k := range cur {
		curNames = append(curNames, k)
	}
	sort.Strings(curNames)
	for _, tname := range curNames {
		st := cur[tname]
		if len(base[tname]) > 0 || st.NumFields() == 0 {
			continue
		}
		var cands []string
		for bname, bfs := range base {
			if _, still := cur[bname]; still || len(bfs) != st.NumFields() {
				continue
			}
			short := func(s string) string { return s[strings.LastIndex(s, ".")+1:] }
			same := true
			for _, b := range bfs {
				ts := types.TypeString(st.Field(b.idx).Type(), nil)
				if strings.ReplaceAll(ts, "."+short(tname), "."+short(bname)) != b.typ {
					same = false
				}
			}
			if same {
				cands = append(cands, bname)
			}
		}
		if len(cands) == 1 {
			typeAlias[tname] = cands[0]
			aliasNotes = append(aliasNotes, fmt.Sprintf("[%s] struct type %s of the reference tree is %s in this tree", p.Cfg, cands[0], tname))
		}
	}
	for _, pk := range p.Pkgs {
		if !strings.HasPrefix(pk.PkgPath, modPath) {
			continue
		}
		sc := pk.Types.Scope()
		for _, nm := range sc.Names() {
			tn, ok := sc.Lookup(nm).(*types.TypeName)
			if !ok {
				continue
			}
			st, ok := tn.Type().Underlying().(*types.Struct)
			if !ok {
				continue
			}
			tname := typeName(tn.Type())
			bfs := base[tname]
			if len(bfs) == 0 {
				continue
			}
			baseNames := map[string]bool{}
			for _, b := range bfs {
				baseNames[b.name] = true
			}
			curNames := map[string]bool{}
			for i := 0; i < st.NumFields(); i++ {
				curNames[st.Field(i).Name()] = true
			}
			used := map[string]bool{}
			for i := 0; i < st.NumFields(); i++ {
				f := st.Field(i)
				if baseNames[f.Name()] {
					continue
				}
				ts := types.TypeString(f.Type(), nil)
				var cands []bf
				for _, b := range bfs {
					if !curNames[b.name] && !used[b.name] && b.typ == ts {
						cands = append(cands, b)
					}
				}
				pick := -1
				if len(cands) == 1 {
					pick = 0
				} else {
					for k, c := range cands {
						if c.idx == i {
							pick = k
						}
					}
				}
				if pick < 0 {
					continue
				}
				used[cands[pick].name] = true
				if fieldAlias[tname] == nil {
					fieldAlias[tname] = map[string]string{}
				}
				if fieldAlias[tname][f.Name()] == "" {
					fieldAlias[tname][f.Name()] = cands[pick].name
					aliasNotes = append(aliasNotes, fmt.Sprintf("[%s] field %s.%s of the reference tree is %s.%s in this tree", p.Cfg, tname, cands[pick].name, tname, f.Name()))
				}
			}
			// fields of the reference struct that are still unaccounted for may have moved into a helper struct
			// that the reference tree does not know (embedded or held in a field)
			for i := 0; i < st.NumFields(); i++ {
				f := st.Field(i)
				ht := f.Type()
				if pt, ok := ht.(*types.Pointer); ok {
					ht = pt.Elem()
				}
				hn, ok := ht.(*types.Named)
				if !ok || hn.Obj().Pkg() == nil || !strings.HasPrefix(hn.Obj().Pkg().Path(), modPath) {
					continue
				}
				hst, ok := hn.Underlying().(*types.Struct)
				hname := typeName(hn)
				if !ok || len(base[hname]) > 0 || baseNames[f.Name()] {
					continue // not a struct, or a struct (or field) the reference tree already has
				}
				moved := false
				for j := 0; j < hst.NumFields(); j++ {
					hf := hst.Field(j)
					ts := types.TypeString(hf.Type(), nil)
					var cands []bf
					for _, b := range bfs {
						if !curNames[b.name] && !used[b.name] && b.typ == ts {
							cands = append(cands, b)
						}
					}
					if len(cands) != 1 {
						continue
					}
					used[cands[0].name] = true
					moved = true
					if fieldAlias[hname] == nil {
						fieldAlias[hname] = map[string]string{}
					}
					fieldAlias[hname][hf.Name()] = tname + "." + cands[0].name
					aliasNotes = append(aliasNotes, fmt.Sprintf("[%s] field %s.%s of the reference tree is %s.%s (helper struct held in %s.%s) in this tree", p.Cfg, tname, cands[0].name, hname, hf.Name(), tname, f.Name()))
				}
				if moved {
					passThrough[tname+"."+f.Name()] = true
				}
			}
		}
	}
}

// aliasedField returns the reference-tree name of field `name` of struct type tname.
func aliasedField(tname, name string) string {
	if m := fieldAlias[tname]; m != nil {
		if a, ok := m[name]; ok {
			return a
		}
	}
	return name
}

// qualifiedField is "type.field" in reference-tree terms ("" for the selection of a pass-through helper struct).
func qualifiedField(tname, name string) string {
	if passThrough[tname+"."+name] {
		return ""
	}
	a := aliasedField(tname, name)
	if strings.Contains(a, ".") {
		return a // moved from another struct: already qualified
	}
	return tname + "." + a
}

func baselineLines(p *Program) []string {
	var out []string
	for k, f := range p.topLevel() {
		out = append(out, p.Cfg.String()+"\t"+k+"\t"+fingerprint(f)+"\t"+types.TypeString(f.Signature.Results(), nil))
	}
	sort.Strings(out)
	return append(out, structLines(p)...)
}

// firstParamNamed returns the name of the named type (possibly behind a pointer) of f's first parameter (the receiver for methods).
func firstParamNamed(f *ssa.Function) string {
	if len(f.Params) == 0 {
		return ""
	}
	t := f.Params[0].Type()
	if pt, ok := t.(*types.Pointer); ok {
		t = pt.Elem()
	}
	if n, ok := t.(*types.Named); ok {
		return n.Obj().Name()
	}
	return ""
}

// resolveRenames fills fnAlias for the loaded program.
func (p *Program) resolveRenames() {
	p.resolveFieldRenames()
	base := map[string]string{}
	baseResults := map[string]string{}
	for _, ln := range strings.Split(baselineFuncs, "\n") {
		parts := strings.Split(ln, "\t")
		if (len(parts) == 3 || len(parts) == 4) && parts[0] == p.Cfg.String() {
			base[parts[1]] = parts[2]
			if len(parts) == 4 {
				baseResults[parts[1]] = parts[3]
			}
		}
	}
	if len(base) == 0 {
		return
	}
	cur := p.topLevel()
	var missing []string
	for k := range base {
		if cur[k] == nil {
			missing = append(missing, k)
		}
	}
	sort.Strings(missing)
	fresh := map[string]*ssa.Function{}
	fp := map[string]string{}
	resultSig := map[string]string{}
	for k, f := range cur {
		if _, ok := base[k]; !ok {
			fresh[k] = f
			fp[k] = fingerprint(f)
			resultSig[k] = types.TypeString(f.Signature.Results(), nil)
		}
	}
	claimed := map[string]bool{}
	pick := func(m string, match func(k string) bool) bool {
		var c []string
		for k := range fresh {
			if !claimed[k] && match(k) {
				c = append(c, k)
			}
		}
		if len(c) != 1 {
			return false
		}
		claimed[c[0]] = true
		fnAlias[fresh[c[0]]] = m
		aliasNotes = append(aliasNotes, fmt.Sprintf("[%s] %s of the reference tree is %s in this tree", p.Cfg, m, c[0]))
		return true
	}
	var rest []string
	for _, m := range missing {
		if !pick(m, func(k string) bool { return fp[k] == base[m] }) {
			rest = append(rest, m)
		}
	}
	for _, m := range rest {
		// same bare name, receiver <-> first parameter
		recv := ""
		if strings.HasPrefix(m, "(") {
			recv = strings.TrimPrefix(strings.TrimPrefix(m[:strings.Index(m, ")")], "(*"), "(")
			recv = bareName(recv)
		}
		pick(m, func(k string) bool {
			if bareName(k) != bareName(m) {
				return false
			}
			if recv != "" { // method became a function taking the receiver first
				return !strings.HasPrefix(k, "(") && firstParamNamed(fresh[k]) == recv
			}
			return strings.HasPrefix(k, "(") // function became a method
		})
	}
	// last resort: the same bare name and the same result types, exactly one candidate (a function whose signature
	// was reshaped - receiver dropped, parameters regrouped - but which kept its name)
	for _, m := range rest {
		if func() bool {
			for _, a := range fnAlias {
				if a == m {
					return true
				}
			}
			return false
		}() {
			continue
		}
		pick(m, func(k string) bool {
			return bareName(k) == bareName(m) && resultSig[k] != "" && resultSig[k] == baseResults[m]
		})
	}
	sort.Strings(aliasNotes)
}

// devirt maps a method of an interface declared in package pogreb to the only module method that implements it
// (a one-implementation interface introduced as an abstraction does not hide the callee from the rules).
var devirt = map[*types.Func]*ssa.Function{}

func (p *Program) resolveDevirt() {
	if p.Main == nil || p.SSA == nil {
		return
	}
	var named []*types.Named
	for _, pk := range p.Pkgs {
		if !strings.HasPrefix(pk.PkgPath, modPath) {
			continue
		}
		sc := pk.Types.Scope()
		for _, nm := range sc.Names() {
			if tn, ok := sc.Lookup(nm).(*types.TypeName); ok {
				if n, ok := tn.Type().(*types.Named); ok && !types.IsInterface(n) {
					named = append(named, n)
				}
			}
		}
	}
	sc := p.Main.Types.Scope()
	for _, nm := range sc.Names() {
		tn, ok := sc.Lookup(nm).(*types.TypeName)
		if !ok {
			continue
		}
		iface, ok := tn.Type().Underlying().(*types.Interface)
		if !ok || iface.NumMethods() == 0 {
			continue
		}
		var impls []types.Type
		for _, n := range named {
			switch {
			case types.Implements(n, iface):
				impls = append(impls, n)
			case types.Implements(types.NewPointer(n), iface):
				impls = append(impls, types.NewPointer(n))
			}
		}
		if len(impls) != 1 {
			continue
		}
		for i := 0; i < iface.NumMethods(); i++ {
			m := iface.Method(i)
			sel := p.SSA.MethodSets.MethodSet(impls[0]).Lookup(m.Pkg(), m.Name())
			if sel == nil {
				continue
			}
			if fn := p.SSA.MethodValue(sel); fn != nil {
				// promoted methods are wrappers: use the declared method when there is one
				if obj, ok := sel.Obj().(*types.Func); ok {
					if decl := p.SSA.FuncValue(obj); decl != nil {
						fn = decl
					}
				}
				devirt[m] = fn
			}
		}
	}
}
