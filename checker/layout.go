package main

import (
	"fmt"
	"go/token"
	"go/types"
	"sort"
	"strings"

	"golang.org/x/tools/go/ssa"
)

// layoutRow is one byte-level access of a marshal/unmarshal function.
type layoutRow struct {
	Kind  string // put, get, copy-to, copy-from, crc, equal, read-into
	Width int
	Range string
	What  string
	Pos   token.Pos
	InLp  bool
}

func (r layoutRow) String() string {
	lp := ""
	if r.InLp {
		lp = " (per iteration i)"
	}
	return fmt.Sprintf("%s%d %s %s%s", r.Kind, r.Width, r.Range, r.What, lp)
}

// describeValue names the origin of a value written by an encoder.
func describeValue(v ssa.Value) string { return describeValueD(v, 0) }

func describeValueD(v ssa.Value, d int) string {
	if d > 12 {
		return "..."
	}
	v = strip(v)
	switch x := v.(type) {
	case *ssa.Convert:
		return describeValueD(x.X, d+1)
	case *ssa.UnOp:
		if x.Op == token.MUL {
			if fn := fieldName(x.X); fn != "" {
				return fn
			}
			if a, ok := x.X.(*ssa.Alloc); ok {
				st := allocStores(a)
				if len(st) == 1 {
					return describeValueD(st[0], d+1)
				}
			}
			if g := globalLoad(x); g != "" {
				return g
			}
		}
	case *ssa.Field:
		return fieldName(x)
	case *ssa.Call:
		if b, ok := x.Call.Value.(*ssa.Builtin); ok && b.Name() == "len" {
			return "len(" + describeValueD(x.Call.Args[0], d+1) + ")"
		}
		if k := calleeKey(&x.Call); k != "" {
			return k + "()"
		}
	case *ssa.Parameter:
		return "param:" + x.Name()
	case *ssa.Const:
		if x.Value == nil {
			return "zero"
		}
		return x.Value.String()
	case *ssa.BinOp:
		return describeValueD(x.X, d+1) + x.Op.String() + describeValueD(x.Y, d+1)
	case *ssa.Phi:
		var ps []string
		for _, e := range x.Edges {
			ps = append(ps, describeValueD(e, d+1))
		}
		sort.Strings(ps)
		return "phi{" + strings.Join(ps, ",") + "}"
	case *ssa.Slice:
		return "slice(" + describeValueD(x.X, d+1) + ")"
	case *ssa.FieldAddr:
		return fieldName(x)
	case *ssa.Global:
		return x.Pkg.Pkg.Name() + "." + x.Name()
	case *ssa.Alloc:
		st := allocStores(x)
		if len(st) == 1 {
			return describeValueD(st[0], d+1)
		}
		return "local:" + x.Comment
	}
	return "?"
}

// describeUse names where a decoded value ends up (field stores, through conversions and masks).
func describeUse(v ssa.Value) string {
	var outs []string
	seen := map[ssa.Value]bool{}
	var rec func(v ssa.Value, d int)
	rec = func(v ssa.Value, d int) {
		if seen[v] || d > 8 {
			return
		}
		seen[v] = true
		refs := v.Referrers()
		if refs == nil {
			return
		}
		for _, rf := range *refs {
			switch x := rf.(type) {
			case *ssa.Store:
				if x.Val == v {
					if fn := fieldName(x.Addr); fn != "" {
						outs = append(outs, fn)
					} else if a, ok := x.Addr.(*ssa.Alloc); ok {
						outs = append(outs, "local:"+a.Comment)
					}
				}
			case *ssa.Convert:
				rec(x, d+1)
			case *ssa.ChangeType:
				rec(x, d+1)
			case *ssa.Phi:
				outs = append(outs, "local:"+x.Comment)
			case *ssa.BinOp:
				switch x.Op {
				case token.AND, token.AND_NOT:
					outs = append(outs, "mask:"+describeValue(x.Y))
					rec(x, d+1)
				case token.EQL, token.NEQ:
					other := x.Y
					if x.Y == v {
						other = x.X
					}
					outs = append(outs, "cmp:"+describeValue(other))
				case token.ADD:
					outs = append(outs, "sum")
				}
			}
		}
	}
	rec(v, 0)
	sort.Strings(outs)
	return strings.Join(uniq(outs), ",")
}

func uniq(in []string) []string {
	var out []string
	for i, s := range in {
		if i == 0 || s != in[i-1] {
			out = append(out, s)
		}
	}
	return out
}

// extractLayout lists the byte-level accesses of fn and of the module functions it calls (call-string cloned), so that
// extracting a helper from a marshal function does not change the result.
func extractLayout(fn *ssa.Function, sym func(v ssa.Value) string) (rows []layoutRow, undecided []string) {
	loopBlocks := map[*ssa.BasicBlock]bool{}
	loopN := map[*ssa.Function]int64{}
	prep := map[*ssa.Function]bool{}
	env := &SliceEnv{Lin: &LinEnv{Sym: sym}, RootLen: map[ssa.Value]*Lin{}}
	env.InLoop = func(in ssa.Instruction) bool { return loopBlocks[in.Block()] }
	env.LoopNOf = func(ph *ssa.Phi) int64 { return loopN[ph.Parent()] }
	prepare := func(f *ssa.Function) {
		if prep[f] {
			return
		}
		prep[f] = true
		for _, b := range f.Blocks {
			if inCycle(b) {
				loopBlocks[b] = true
			}
			for k := range b.Succs {
				c := edgeCond(b, k)
				if c != nil && c.Op == token.LSS && c.Pos {
					x := strip(c.X)
					if bo, ok := x.(*ssa.BinOp); ok && bo.Op == token.ADD {
						// range loops: the index starts at -1 and is incremented before the comparison
						if k, ok := constInt(bo.Y); ok && k == 1 {
							x = strip(bo.X)
						}
					}
					if _, ok := x.(*ssa.Phi); ok {
						if n, ok := constInt(c.Y); ok {
							loopN[f] = n
						}
					}
				}
			}
		}
		instrsOf(f, func(in ssa.Instruction) {
			switch x := in.(type) {
			case *ssa.Alloc:
				if arr, ok := derefType(x.Type()).Underlying().(*types.Array); ok {
					env.RootLen[x] = linConst(arr.Len())
				}
			case *ssa.FieldAddr:
				if arr, ok := derefType(x.Type()).Underlying().(*types.Array); ok {
					env.RootLen[x] = linConst(arr.Len())
				}
			}
		})
	}
	w := &IPWalk{P: nil, MaxDepth: 4}
	root := &Ctx{Fn: fn}
	w.Run(root, nil)
	var nodes []Node
	for n := range w.Reached {
		nodes = append(nodes, n)
	}
	sort.Slice(nodes, func(i, j int) bool { return nodes[i].In.Pos() < nodes[j].In.Pos() })
	for _, n := range nodes {
		prepare(n.Ctx.Fn)
		if ms, ok := n.In.(*ssa.MakeSlice); ok {
			if l := env.Lin.inCtx(n.Ctx).Eval(ms.Len); l != nil {
				env.RootLen[ms] = l
			}
		}
	}
	seen := map[string]bool{}
	add := func(ctx *Ctx, kind string, width int, sl ssa.Value, what string, in ssa.Instruction) {
		ref := env.Resolve(ctx, sl, in)
		if ref == nil {
			undecided = append(undecided, fmt.Sprintf("%s%d: cannot resolve slice %s", kind, width, valString(sl)))
			return
		}
		if width > 0 {
			ref.End = ref.Off.add(linConst(int64(width/8)), 1)
		} else if ref.End == nil {
			if rl, ok := env.RootLen[ref.Root]; ok {
				ref.End = rl
			}
		}
		row := layoutRow{Kind: kind, Width: width, Range: ref.Range(), What: what, Pos: in.Pos(), InLp: loopBlocks[in.Block()]}
		if !seen[row.String()] {
			seen[row.String()] = true
			rows = append(rows, row)
		}
	}
	for _, n := range nodes {
		in := n.In
		if st, ok := in.(*ssa.Store); ok {
			if _, isSl := strip(st.Val).(*ssa.Slice); isSl {
				if fn := fieldName(st.Addr); fn != "" {
					add(n.Ctx, "field", 0, st.Val, fn, st)
				}
			}
			continue
		}
		c, ok := in.(*ssa.Call)
		if !ok {
			continue
		}
		k := calleeKey(&c.Call)
		switch {
		case strings.HasPrefix(k, "(encoding/binary.littleEndian).PutUint") || strings.HasPrefix(k, "(encoding/binary.bigEndian).PutUint"):
			kind := "put"
			if strings.Contains(k, "bigEndian") {
				kind = "putBE"
			}
			add(n.Ctx, kind, widthOf(k), c.Call.Args[1], describeValueCtx(n.Ctx, c.Call.Args[2]), c)
		case strings.HasPrefix(k, "(encoding/binary.littleEndian).Uint") || strings.HasPrefix(k, "(encoding/binary.bigEndian).Uint"):
			kind := "get"
			if strings.Contains(k, "bigEndian") {
				kind = "getBE"
			}
			add(n.Ctx, kind, widthOf(k), c.Call.Args[1], describeUse(c), c)
		case k == "hash/crc32.ChecksumIEEE":
			add(n.Ctx, "crc", 0, c.Call.Args[0], describeUse(c), c)
		case k == "bytes.Equal":
			add(n.Ctx, "equal", 0, c.Call.Args[0], describeValue(c.Call.Args[1]), c)
		case k == "io.ReadFull":
			add(n.Ctx, "read-into", 0, c.Call.Args[1], "", c)
		default:
			if b, ok := c.Call.Value.(*ssa.Builtin); ok && b.Name() == "copy" {
				add(n.Ctx, "copy-to", 0, c.Call.Args[0], describeValueCtx(n.Ctx, c.Call.Args[1]), c)
			}
		}
	}
	return rows, undecided
}

// describeValueCtx is describeValue with parameters replaced by the caller's argument.
func describeValueCtx(ctx *Ctx, v ssa.Value) string {
	if pa, ok := strip(v).(*ssa.Parameter); ok && ctx != nil && ctx.Parent != nil && ctx.Site != nil && ctx.Fn == pa.Parent() {
		cc := callOf(ctx.Site)
		idx := paramIndex(pa)
		if !cc.IsInvoke() && idx >= 0 && idx < len(cc.Args) {
			return describeValueCtx(ctx.Parent, cc.Args[idx])
		}
	}
	return describeValue(v)
}

func widthOf(k string) int {
	switch {
	case strings.HasSuffix(k, "16"):
		return 16
	case strings.HasSuffix(k, "32"):
		return 32
	case strings.HasSuffix(k, "64"):
		return 64
	}
	return 0
}

// compareLayout checks extracted rows against the frozen specification (order-insensitive, exact).
func compareLayout(r *Run, p *Program, rule, construct string, fn *ssa.Function, want []string, sym func(v ssa.Value) string) {
	r.fn(funcKey(fn))
	rows, und := extractLayout(fn, sym)
	for _, u := range und {
		r.undecided(rule, construct, p.Pos(fn.Pos()), "layout not decidable: "+u)
	}
	var got []string
	for _, row := range rows {
		got = append(got, row.String())
	}
	sort.Strings(got)
	w := append([]string{}, want...)
	sort.Strings(w)
	if strings.Join(got, "\n") == strings.Join(w, "\n") {
		r.ok(rule, construct, p.Pos(fn.Pos()), fmt.Sprintf("byte layout equals the documented format (%d fields): %s", len(got), strings.Join(got, "; ")), true)
		return
	}
	// diff
	gm := map[string]bool{}
	for _, g := range got {
		gm[g] = true
	}
	wm := map[string]bool{}
	for _, x := range w {
		wm[x] = true
	}
	var missing, extra []string
	for _, x := range w {
		if !gm[x] {
			missing = append(missing, x)
		}
	}
	for _, g := range got {
		if !wm[g] {
			extra = append(extra, g)
		}
	}
	r.bad(rule, construct, p.Pos(fn.Pos()), fmt.Sprintf("the byte layout produced/accepted by %s differs from the documented format v2: expected but absent {%s}; present but not in the format {%s}", funcKey(fn), strings.Join(missing, "; "), strings.Join(extra, "; ")))
}

// recordSyms names the symbolic lengths used by the record encoder/decoder.
func recordSyms(v ssa.Value) string {
	v = strip(v)
	switch x := v.(type) {
	case *ssa.Call:
		if b, ok := x.Call.Value.(*ssa.Builtin); ok && b.Name() == "len" {
			if pa, ok := strip(x.Call.Args[0]).(*ssa.Parameter); ok {
				switch pa.Name() {
				case "key":
					return "K"
				case "value":
					return "V"
				}
			}
		}
		k := calleeKey(&x.Call)
		if k == "(encoding/binary.littleEndian).Uint16" {
			return "K"
		}
	case *ssa.Phi:
		// valueSize after masking the type bit: phi of the decoded value and its masked version
		for _, e := range x.Edges {
			if isDecodedValueSize(e) {
				return "V"
			}
		}
	}
	if isDecodedValueSize(v) {
		return "V"
	}
	return ""
}

func isDecodedValueSize(v ssa.Value) bool {
	v = strip(v)
	switch x := v.(type) {
	case *ssa.Call:
		return calleeKey(&x.Call) == "(encoding/binary.littleEndian).Uint32" && len(x.Call.Args) == 2 && func() bool {
			// the header field, not the checksum: its slice argument has no symbolic length
			if sl, ok := strip(x.Call.Args[1]).(*ssa.Slice); ok {
				if c, ok := sl.Low.(*ssa.Const); ok {
					k, _ := constInt(c)
					return k == 2
				}
			}
			return false
		}()
	case *ssa.BinOp:
		if x.Op == token.AND_NOT || x.Op == token.AND {
			return isDecodedValueSize(x.X)
		}
	case *ssa.UnOp:
		// a field of a local struct that holds the decoded value size
		if x.Op == token.MUL {
			if fa, ok := x.X.(*ssa.FieldAddr); ok {
				if a, ok := fa.X.(*ssa.Alloc); ok {
					if refs := a.Referrers(); refs != nil {
						for _, rf := range *refs {
							if fb, ok := rf.(*ssa.FieldAddr); ok && fb.Field == fa.Field {
								for _, sv := range allocStores(fb) {
									if _, isLoad := strip(sv).(*ssa.UnOp); !isLoad && isDecodedValueSize(sv) {
										return true
									}
								}
							}
						}
					}
				}
			}
		}
	}
	return false
}
