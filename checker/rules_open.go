package main

import (
	"fmt"
	"go/token"
	"sort"
	"strings"

	"golang.org/x/tools/go/ssa"
)

// checkSkipsOnly: in a loop of f, the instruction `work` (per-element work) may be bypassed within an iteration only through
// edges accepted by allowed.
func checkSkipsOnly(r *Run, p *Program, rule, construct string, f *ssa.Function, work ssa.Instruction, allowed func(c *Cond) bool, okMsg, badMsg string) {
	if !skipsOnlyFrame(r, p, rule, construct, f, work, allowed, badMsg) {
		r.ok(rule, construct, p.Pos(f.Pos()), okMsg, true)
	}
}

// skipsOnlyFrame reports (and returns true) when `work` in f can be bypassed over an edge that is neither allowed,
// a loop bound, an error edge, nor an edge on which the function can only fail.
func skipsOnlyFrame(r *Run, p *Program, rule, construct string, f *ssa.Function, work ssa.Instruction, allowed func(c *Cond) bool, badMsg string) bool {
	return skipsOnlyFrameCtx(r, p, rule, construct, nil, f, work, allowed, badMsg)
}

// predicateAllowed: the condition is the result of a predicate callback (resolved through the call string) that
// yields the skipping value only where `allowed` holds inside it.
func predicateAllowed(ctx *Ctx, c *Cond, allowed func(c *Cond) bool) bool {
	if ctx == nil || c.Op != token.ILLEGAL || c.V == nil {
		return false
	}
	call, ok := strip(c.V).(*ssa.Call)
	if !ok || call.Call.IsInvoke() {
		return false
	}
	g := call.Call.StaticCallee()
	if g == nil {
		g, _, _ = resolveFuncValue(ctx, call.Call.Value, 0)
	}
	if g == nil || !inModule(g) {
		return false
	}
	return returnsOnlyUnder(g, c.Pos, allowed)
}

func skipsOnlyFrameCtx(r *Run, p *Program, rule, construct string, ctx *Ctx, f *ssa.Function, work ssa.Instruction, allowed func(c *Cond) bool, badMsg string) bool {
	w := &Walk{Fn: f, Stop: func(in ssa.Instruction) bool { return in == work }}
	w.From()
	bad := false
	looped := inCycle(work.Block())
	for _, b := range f.Blocks {
		if len(b.Instrs) == 0 || !w.Visited[b.Instrs[len(b.Instrs)-1]] {
			continue
		}
		if looped && !sameCycle(b, work.Block()) {
			continue
		}
		for k := range b.Succs {
			c := edgeCond(b, k)
			if c == nil {
				continue
			}
			if !edgeDominatesNot(f, b, k, work) {
				continue
			}
			if skipMustContinue && (allowed(c) || predicateAllowed(ctx, c, allowed)) && looped && !isLoopBound(c) && errNonNilEdge(c) == nil {
				// an allowed skip goes on to the next entry: it does not end the loop
				if succ := b.Succs[k]; succ != work.Block() && !sameCycle(succ, work.Block()) && !edgeOnlyFails(f, b, k) {
					bad = true
					r.bad(rule, construct, p.Pos(c.If.Cond.Pos()), "an entry that may be skipped ends the whole loop instead ("+c.String(p)+"): the entries after it are never handled")
				}
				continue
			}
			if allowed(c) || isLoopBound(c) || errNonNilEdge(c) != nil || predicateAllowed(ctx, c, allowed) {
				continue
			}
			// an edge that leaves towards a failure return is fine: the function reports the entry instead of skipping it
			if edgeOnlyFails(f, b, k) {
				continue
			}
			bad = true
			r.bad(rule, construct, p.Pos(c.If.Cond.Pos()), badMsg+" ("+c.String(p)+")")
		}
	}
	return bad
}

// workSite is a per-item piece of work found below a root function, with the call string leading to it.
type workSite struct {
	Node Node
}

// findWorkDeep lists the instructions satisfying isWork in root and in everything it calls (callbacks and closures
// resolved through the call string), each with its context.
func findWorkDeep(p *Program, root *ssa.Function, isWork func(in ssa.Instruction) bool) []Node {
	w, _ := allNodesFrom(p, &Ctx{Fn: root})
	var out []Node
	for nd := range w.Reached {
		if isWork(nd.In) {
			out = append(out, nd)
		}
	}
	sort.Slice(out, func(i, j int) bool {
		if out[i].In.Pos() != out[j].In.Pos() {
			return out[i].In.Pos() < out[j].In.Pos()
		}
		return out[i].Ctx.String() < out[j].Ctx.String()
	})
	return out
}

// skipMustContinue: set by callers whose allowed conditions mean "skip this entry" (not "the iteration is over"): an
// allowed skip must then stay inside the loop.
var skipMustContinue bool

func checkSkipsDeepContinue(r *Run, p *Program, rule, construct string, nd Node, allowed func(c *Cond) bool, okMsg, badMsg string) {
	skipMustContinue = true
	defer func() { skipMustContinue = false }()
	checkSkipsDeep(r, p, rule, construct, nd, allowed, okMsg, badMsg)
}

// checkSkipsDeep is checkSkipsOnly for work that may sit in a helper or in a callback below the loop: the skip
// discipline is checked in every frame of the call string from root down to the work (the loop may be in any of them).
func checkSkipsDeep(r *Run, p *Program, rule, construct string, nd Node, allowed func(c *Cond) bool, okMsg, badMsg string) {
	bad := false
	site := nd.In
	var rootFn *ssa.Function
	for ctx := nd.Ctx; ctx != nil; ctx = ctx.Parent {
		if site == nil {
			break
		}
		if site.Parent() == ctx.Fn {
			if skipsOnlyFrameCtx(r, p, rule, construct, ctx, ctx.Fn, site, allowed, badMsg) {
				bad = true
			}
		}
		rootFn = ctx.Fn
		site = ctx.Site
	}
	if !bad {
		r.ok(rule, construct, p.Pos(rootFn.Pos()), okMsg, true)
	}
}

// controlledDeep: in some frame of the call string down to nd, the frame's site is reachable only over an edge satisfying pred.
func controlledDeep(nd Node, pred func(c *Cond) bool) bool {
	site := nd.In
	for ctx := nd.Ctx; ctx != nil && site != nil; ctx = ctx.Parent {
		if site.Parent() == ctx.Fn {
			ctx := ctx
			if controlledBy(ctx.Fn, site, func(c *Cond) bool {
				if pred(c) {
					return true
				}
				// the result of a predicate callback that is true only where pred holds inside it
				if c.Op == token.ILLEGAL && c.V != nil {
					if call, ok := strip(c.V).(*ssa.Call); ok && !call.Call.IsInvoke() {
						g := call.Call.StaticCallee()
						if g == nil {
							g, _, _ = resolveFuncValue(ctx, call.Call.Value, 0)
						}
						if g != nil && inModule(g) {
							// reaching the site needs the predicate to be c.Pos: it must yield c.Pos only under pred
							return returnsOnlyUnder(g, c.Pos, pred)
						}
					}
				}
				return false
			}) {
				return true
			}
		}
		site = ctx.Site
	}
	return false
}

// edgeOnlyFails: every return reachable over edge k of block b is a failure return (and at least one is reachable
// without a back edge into b).
func edgeOnlyFails(f *ssa.Function, b *ssa.BasicBlock, k int) bool {
	seen := map[*ssa.BasicBlock]bool{}
	stack := []*ssa.BasicBlock{b.Succs[k]}
	n := 0
	for len(stack) > 0 {
		x := stack[len(stack)-1]
		stack = stack[:len(stack)-1]
		if seen[x] {
			continue
		}
		seen[x] = true
		if x == b {
			return false
		}
		if len(x.Instrs) > 0 {
			if ret, ok := x.Instrs[len(x.Instrs)-1].(*ssa.Return); ok {
				if !isFailureReturn(f, ret) {
					return false
				}
				n++
			}
		}
		stack = append(stack, x.Succs...)
	}
	return n > 0
}

func strConstEq(c *Cond, vals ...string) bool {
	eq, ok := c.holdsEq()
	if !ok || !eq {
		return false
	}
	for _, pr := range [][2]ssa.Value{{c.X, c.Y}, {c.Y, c.X}} {
		if k, ok := pr[1].(*ssa.Const); ok && k.Value != nil && k.Value.Kind().String() == "String" {
			s := k.Value.ExactString()
			for _, v := range vals {
				if s == "\""+v+"\"" {
					return true
				}
			}
		}
	}
	return false
}

// ruleOpenOrder: structure of Open (lock first, fail clean, recovery gating, move-aside before open) and of recovery.
func ruleOpenOrder(r *Run, p *Program, rule string) {
	f := p.Fn("pogreb.Open")
	if !r.anchor(rule, "pogreb.Open", f != nil) {
		return
	}
	r.fn(funcKey(f))
	var lockCall, backupCall, recoverCall, openIdx, openLog *ssa.Call
	instrsOf(f, func(in ssa.Instruction) {
		c, ok := in.(*ssa.Call)
		if !ok {
			return
		}
		switch calleeKey(&c.Call) {
		case "pogreb.createLockFile":
			lockCall = c
		case "pogreb.backupNonsegmentFiles":
			backupCall = c
		case "(*pogreb.DB).recover":
			recoverCall = c
		case "pogreb.openIndex":
			openIdx = c
		case "pogreb.openDatalog":
			openLog = c
		}
	})
	if !r.anchor(rule, "createLockFile, backupNonsegmentFiles, recover, openIndex, openDatalog calls in Open", lockCall != nil && backupCall != nil && recoverCall != nil && openIdx != nil && openLog != nil) {
		return
	}
	root := &Ctx{Fn: f}
	// (a) the lock is taken before anything else touches the file system
	w := &IPWalk{P: p, Visit: func(n Node) bool { return n.Ctx.Parent == nil && n.In == ssa.Instruction(lockCall) }}
	w.Run(root, nil)
	bad := false
	for n := range w.Reached {
		if e := fsEventOf(n); e != nil && e.Method != "MkdirAll" {
			bad = true
			r.bad(rule, "pogreb.Open:lock-first", p.Pos(instrPos(n.In)), "Open touches the file system ("+e.Iface+"."+e.Method+") before acquiring the lock file: a competing or failed Open changes a directory another handle owns", w.PathTo(n)...)
		}
	}
	if !bad {
		r.ok(rule, "pogreb.Open:lock-first", p.Pos(lockCall.Pos()), "nothing but MkdirAll precedes the acquisition of the lock file", true)
	}
	// (b) a failed acquisition touches nothing
	w2 := &IPWalk{P: p, SkipEdge: func(ctx *Ctx, b *ssa.BasicBlock, k int) bool {
		if ctx.Parent != nil {
			return false
		}
		c := edgeCond(b, k)
		if c == nil {
			return false
		}
		e := errNilEdge(c)
		return e != nil && valueOfCall(e, lockCall)
	}}
	w2.Run(root, []Node{{root, lockCall}})
	bad = false
	for n := range w2.Reached {
		if e := fsEventOf(n); e != nil {
			bad = true
			r.bad(rule, "pogreb.Open:fail-clean", p.Pos(instrPos(n.In)), "after a failed lock acquisition Open still calls "+e.Iface+"."+e.Method, w2.PathTo(n)...)
		}
	}
	if !bad {
		r.ok(rule, "pogreb.Open:fail-clean", p.Pos(lockCall.Pos()), "when the lock is not acquired Open returns without any file-system call", true)
	}
	// (c) recovery iff the lock file pre-existed
	isAcq := func(pos bool) func(c *Cond) bool {
		return func(c *Cond) bool {
			if c.Op != token.ILLEGAL || c.Pos != pos {
				return false
			}
			return boolFromCallPred(c.V, func(cc *ssa.Call) bool { return cc == lockCall })
		}
	}
	for _, c := range []*ssa.Call{backupCall, recoverCall} {
		r.check(controlledBy(f, c, isAcq(true)), rule, "pogreb.Open:gated("+calleeKey(&c.Call)+")", p.Pos(c.Pos()),
			"runs only when the lock file already existed (previous session did not complete Close)", calleeKey(&c.Call)+" is not gated by 'the lock file already existed': a cleanly closed database would be recovered, or an unclean one not")
	}
	// every success return on the "existed" branch passes both
	for _, c := range []*ssa.Call{backupCall, recoverCall} {
		c := c
		wk := &Walk{Fn: f, Stop: func(in ssa.Instruction) bool { return in == ssa.Instruction(c) },
			SkipEdge: func(b *ssa.BasicBlock, k int) bool { cd := edgeCond(b, k); return cd != nil && isAcq(false)(cd) }}
		wk.From(lockCall)
		okv := true
		for _, ret := range returnsOf(f) {
			if wk.succ(f, ret) {
				okv = false
				r.bad(rule, "pogreb.Open:recovers("+calleeKey(&c.Call)+")", p.Pos(instrPos(ret)), "Open can succeed on a directory whose lock file pre-existed without "+calleeKey(&c.Call)+": an unclean shutdown goes unrecovered", wk.PathTo(p, ret)...)
			}
		}
		if okv {
			r.ok(rule, "pogreb.Open:recovers("+calleeKey(&c.Call)+")", p.Pos(c.Pos()), "when the lock file pre-existed every success return passes "+calleeKey(&c.Call), true)
		}
	}
	// (d) index and metadata are moved aside before index and log are opened
	for _, o := range []*ssa.Call{openIdx, openLog} {
		wk := &Walk{Fn: f, Stop: func(in ssa.Instruction) bool { return in == ssa.Instruction(backupCall) },
			SkipEdge: func(b *ssa.BasicBlock, k int) bool { cd := edgeCond(b, k); return cd != nil && isAcq(false)(cd) }}
		wk.From(lockCall)
		r.check(!wk.Visited[o], rule, "pogreb.Open:move-aside-before("+calleeKey(&o.Call)+")", p.Pos(o.Pos()), "on the recovery branch the stale index/meta files are moved aside before "+calleeKey(&o.Call), "on the recovery branch "+calleeKey(&o.Call)+" can run before the stale index and meta files were moved aside: recovery would replay into a stale index / trust stale segment metadata")
	}
	// recover after index/log opened and meta read
	r.check(mustPrecedeInstr(f, recoverCall, openIdx) && mustPrecedeInstr(f, recoverCall, openLog), rule, "pogreb.Open:recover-after-open", p.Pos(recoverCall.Pos()), "recover() runs after index and log were opened", "recover() can run before index/log are opened")
	// the lock Open holds and the "already existed" flag it acts on come from the same CreateLockFile call: a wrapper
	// that retries must not pair the lock of one attempt with the flag of another
	if g := lockCall.Call.StaticCallee(); g != nil && g.Blocks != nil {
		r.fn(funcKey(g))
		n := 0
		for _, ret := range returnsOf(g) {
			if isFailureReturn(g, ret) {
				continue
			}
			lockFrom, flagFrom := map[*ssa.Call]bool{}, map[*ssa.Call]bool{}
			for _, v := range retComponents(ret) {
				var into map[*ssa.Call]bool
				switch {
				case isBoolType(v.Type()):
					into = flagFrom
				case typeName(v.Type()) == "fs.LockFile":
					into = lockFrom
				default:
					continue
				}
				for _, s := range sources(v) {
					if c, _ := valueComponent(s); c != nil && isInvoke(&c.Call, "fs.FileSystem", "CreateLockFile") {
						into[c] = true
					} else if _, isc := s.(*ssa.Const); !isc {
						into[nil] = true
					}
				}
			}
			if len(lockFrom) == 0 && len(flagFrom) == 0 {
				continue
			}
			n++
			same := len(lockFrom) == len(flagFrom) && !lockFrom[nil] && !flagFrom[nil]
			for c := range lockFrom {
				if !flagFrom[c] {
					same = false
				}
			}
			r.check(same, rule, funcKey(g)+":lock-and-flag-same-call", p.Pos(instrPos(ret)),
				"the lock and the 'lock file already existed' flag handed to Open come from the same FileSystem.CreateLockFile call(s)",
				"the lock returned to Open and the 'lock file already existed' flag can come from different CreateLockFile attempts: an Open that acquires the lock on a later attempt acts on the flag of an earlier, failed one (always false) and skips recovery of a directory whose owner died")
		}
		r.universe(rule+":lock-wrapper-returns", n, 1)
	}
	// the background worker (any goroutine) is started only when the database is fully assembled and recovered:
	// recover() takes no lock, a worker running beside it compacts against a half-rebuilt index
	{
		spawns := map[*ssa.Function]bool{}
		for _, g := range p.ModuleFuncs("") {
			instrsOf(g, func(in ssa.Instruction) {
				if _, ok := in.(*ssa.Go); ok {
					for h := g; h != nil; h = h.Parent() {
						spawns[h] = true
					}
				}
			})
		}
		var starts []ssa.Instruction
		instrsOf(f, func(in ssa.Instruction) {
			switch x := in.(type) {
			case *ssa.Go:
				starts = append(starts, x)
			case *ssa.Call:
				if g := x.Call.StaticCallee(); g != nil && g.Pkg == p.MainS {
					for _, h := range deepFuncs(p, g) {
						if spawns[h] {
							starts = append(starts, x)
							break
						}
					}
				}
			}
		})
		if r.anchor(rule, "start of the background worker in Open", len(starts) > 0) {
			wk := &Walk{Fn: f}
			wk.From(starts...)
			late := ""
			for _, c := range []*ssa.Call{backupCall, recoverCall, openIdx, openLog} {
				if wk.Visited[c] {
					late += " " + calleeKey(&c.Call)
				}
			}
			r.check(late == "", rule, "pogreb.Open:worker-after-assembly", p.Pos(starts[0].Pos()),
				"goroutines are started only after the index and log were opened and recovery has finished",
				"Open starts the background worker before"+late+": the worker's Sync/Compact run against a database that is still being assembled or replayed (recover holds no lock), e.g. a compaction judging liveness against a half-rebuilt index copies stale records and removes their source")
		}
	}
	// who may call
	for _, g := range p.ModuleFuncs("") {
		instrsOf(g, func(in ssa.Instruction) {
			c, ok := in.(*ssa.Call)
			if !ok {
				return
			}
			k := calleeKey(&c.Call)
			if (k == "pogreb.backupNonsegmentFiles" || k == "(*pogreb.DB).recover") && g != f {
				r.bad(rule, funcKey(g)+"->"+k, p.Pos(c.Pos()), k+" is called outside Open")
			}
		})
	}
	// (e) backupNonsegmentFiles moves everything except segments and the lock file
	if g := p.Fn("pogreb.backupNonsegmentFiles"); r.anchor(rule, "pogreb.backupNonsegmentFiles", g != nil) {
		r.fn(funcKey(g))
		rns := findWorkDeep(p, g, func(in ssa.Instruction) bool {
			c, ok := in.(*ssa.Call)
			return ok && isInvoke(&c.Call, "fs.FileSystem", "Rename")
		})
		if r.anchor(rule, "Rename in backupNonsegmentFiles", len(rns) > 0) {
			for _, nd := range rns {
				checkSkipsDeepContinue(r, p, rule, "pogreb.backupNonsegmentFiles:skips", nd, func(c *Cond) bool { return strConstEq(c, ".psg", "lock") },
					"recovery moves aside every file except *.psg and the lock file", "recovery leaves a file in place that is neither a segment nor the lock file: a stale/half-built index or metadata file survives into the rebuilt database")
				// the destination is name + ".bac"
				c := nd.In.(*ssa.Call)
				dst := nameAbs(nd.Ctx, c.Call.Args[1], 0)
				r.check(dst == "DIRENT.bac", rule, "pogreb.backupNonsegmentFiles:dst", p.Pos(c.Pos()), "files are moved to <name>.bac", "files are moved aside to '"+dst+"', not <name>.bac (not removed afterwards / collides)")
			}
		}
	}
	// (f,g) recover(): order and replay shape
	if g := p.Fn("(*pogreb.DB).recover"); r.anchor(rule, "(*pogreb.DB).recover", g != nil) {
		r.fn(funcKey(g))
		okOrder := false
		deepInstrs(p, g, func(in ssa.Instruction) {
			c, ok := in.(*ssa.Call)
			if !ok {
				return
			}
			switch calleeKey(&c.Call) {
			case "pogreb.newRecoveryIterator":
				for _, s := range sources(c.Call.Args[0]) {
					if sc, ok := s.(*ssa.Call); ok && calleeKey(&sc.Call) == "(*pogreb.datalog).segmentsBySequenceID" {
						okOrder = true
					}
				}
			case "(*pogreb.DB).del":
				b, isc := boolArg(&c.Call)
				r.check(isc && !b, rule, "(*pogreb.DB).recover:replay-delete-no-wal", p.Pos(c.Pos()), "replaying a delete record does not append a new delete record", "replay of a delete record writes to the log again")
				r.check(byteSliceArg(&c.Call) != nil && isFieldLoadOfParam(byteSliceArg(&c.Call), "pogreb.record.key"), rule, "(*pogreb.DB).recover:replay-delete-key", p.Pos(c.Pos()), "the key deleted is the record's key", "replay deletes a key other than the record's")
			case "(*pogreb.DB).put":
				r.check(isFieldLoadOfParam(c.Call.Args[2], "pogreb.record.key"), rule, "(*pogreb.DB).recover:replay-put-key", p.Pos(c.Pos()), "the key inserted is the record's key", "replay inserts a key other than the record's")
			}
		})
		r.check(okOrder, rule, "(*pogreb.DB).recover:order", p.Pos(g.Pos()), "recovery iterates the result of segmentsBySequenceID (oldest first)", "recovery does not replay segments in the order given by segmentsBySequenceID")
		// slot built from the record
		want := map[string]string{"segmentID": "pogreb.record.segmentID", "offset": "pogreb.record.offset"}
		got := map[string]bool{}
		deepInstrs(p, g, func(in ssa.Instruction) {
			st, ok := in.(*ssa.Store)
			if !ok {
				return
			}
			if k := funcKey(in.Parent()); strings.HasPrefix(k, "(*pogreb.index).") || strings.HasPrefix(k, "(*pogreb.slotWriter).") || strings.HasPrefix(k, "(*pogreb.bucket") {
				return // the index's own slot handling, not the replay
			}
			fn := fieldName(st.Addr)
			for k, v := range want {
				if fn == "pogreb.slot."+k {
					got[k] = isFieldLoadOfParam(st.Val, v)
				}
			}
			if fn == "pogreb.slot.hash" {
				c, _ := callResult(st.Val)
				got["hash"] = c != nil && calleeKey(&c.Call) == "(*pogreb.DB).hash" && isFieldLoadOfParam(c.Call.Args[1], "pogreb.record.key")
			}
		})
		for _, k := range []string{"segmentID", "offset", "hash"} {
			r.check(got[k], rule, "(*pogreb.DB).recover:slot."+k, p.Pos(g.Pos()), "the replayed slot's "+k+" comes from the record", "the slot rebuilt by recovery has a "+k+" that does not come from the replayed record")
		}
	}
}

// ruleC03SingleWrite: a record reaches the segment file in one WriteAt of the whole encoded record at the tracked end of file.
func ruleC03SingleWrite(r *Run, p *Program, rule string) {
	f := p.Fn("(*pogreb.datalog).writeRecord")
	g := p.Fn("(*pogreb.file).append")
	if !r.anchor(rule, "(*pogreb.datalog).writeRecord and (*pogreb.file).append", f != nil && g != nil) {
		return
	}
	r.fn(funcKey(f))
	r.fn(funcKey(g))
	var apps []*ssa.Call
	instrsOf(f, func(in ssa.Instruction) {
		if c, ok := in.(*ssa.Call); ok && calleeKey(&c.Call) == "(*pogreb.file).append" {
			apps = append(apps, c)
		}
	})
	okv := len(apps) == 1 && !inCycle(apps[0].Block())
	if okv {
		_, isParam := strip(apps[0].Call.Args[1]).(*ssa.Parameter)
		okv = isParam
	}
	r.check(okv, rule, funcKey(f)+":one-append", p.Pos(f.Pos()), "writeRecord appends the whole encoded record with one append call", fmt.Sprintf("writeRecord does not append the record with exactly one append of its data argument (%d append calls): a crash between two writes leaves a torn record that is not at the tail", len(apps)))
	// success requires the append
	r.check(mustCallOnSuccess(f, func(in ssa.Instruction) bool { return len(apps) == 1 && in == ssa.Instruction(apps[0]) }), rule, funcKey(f)+":append-on-success", p.Pos(f.Pos()), "writeRecord returns success only after the append", "writeRecord can return success without appending the record")
	// the location returned is where the record was written
	nloc := 0
	for _, ret := range returnsOf(f) {
		if isFailureReturn(f, ret) {
			continue
		}
		nloc++
		kinds := map[string]int{}
		for _, v := range retComponents(ret) {
			kinds[locKind(v, 0)]++
		}
		r.check(kinds["id"] == 1 && kinds["off"] == 1, rule, funcKey(f)+":returns-location", p.Pos(instrPos(ret)), "writeRecord returns (current segment id, offset returned by append)", "writeRecord returns a location other than the one the record was appended at")
	}
	r.universe(rule+":location-returns", nloc, 1)
	var wr []*ssa.Call
	instrsOf(g, func(in ssa.Instruction) {
		if c, ok := in.(*ssa.Call); ok && c.Call.IsInvoke() && typeName(c.Call.Value.Type()) == "fs.File" && fileMutators[c.Call.Method.Name()] {
			wr = append(wr, c)
		}
	})
	ok2 := len(wr) == 1 && wr[0].Call.Method.Name() == "WriteAt" && !inCycle(wr[0].Block())
	if ok2 {
		_, isParam := strip(wr[0].Call.Args[0]).(*ssa.Parameter)
		ok2 = isParam && isFieldLoad(wr[0].Call.Args[1], "pogreb.file.size")
	}
	r.check(ok2, rule, funcKey(g)+":one-writeat", p.Pos(g.Pos()), "append issues exactly one WriteAt(data, file.size)", "file.append does not issue exactly one WriteAt of its whole argument at file.size")
	// and returns the offset it wrote at
	for _, ret := range returnsOf(g) {
		if isFailureReturn(g, ret) {
			continue
		}
		r.check(isFieldLoad(retOperand(ret, 0), "pogreb.file.size") && len(wr) == 1 && mustPrecedeInstr(g, wr[0], firstInstrOfValue(retOperand(ret, 0))), rule, funcKey(g)+":returns-offset", p.Pos(instrPos(ret)), "append returns the offset (file.size before the write) it wrote at", "append returns an offset other than the one it wrote at")
	}
}

func accessPathHas(v ssa.Value, sub string) bool {
	ap := accessPath(nil, v)
	return len(ap.Chain) > 0 && containsStr(ap.Chain+".", sub)
}

func containsStr(s, sub string) bool {
	for i := 0; i+len(sub) <= len(s); i++ {
		if s[i:i+len(sub)] == sub {
			return true
		}
	}
	return false
}

func firstInstrOfValue(v ssa.Value) ssa.Instruction {
	if in, ok := strip(v).(ssa.Instruction); ok {
		return in
	}
	return nil
}

// ruleC03WriteAhead: the log is written before the index is changed.
func ruleC03WriteAhead(r *Run, p *Program, rule string) {
	if f := p.Fn("(*pogreb.DB).Put"); r.anchor(rule, "(*pogreb.DB).Put", f != nil) {
		r.fn(funcKey(f))
		var logPut, idxPut *ssa.Call
		instrsOf(f, func(in ssa.Instruction) {
			if c, ok := in.(*ssa.Call); ok {
				switch calleeKey(&c.Call) {
				case "(*pogreb.datalog).put":
					logPut = c
				case "(*pogreb.DB).put":
					idxPut = c
				}
			}
		})
		if r.anchor(rule, "datalog.put and DB.put calls in Put", logPut != nil && idxPut != nil) {
			okv := controlledBy(f, idxPut, func(c *Cond) bool { e := errNilEdge(c); return e != nil && valueOfCall(e, logPut) })
			r.check(okv, rule, "(*pogreb.DB).Put:log-before-index", p.Pos(idxPut.Pos()), "the index is updated only after the record was appended to the log successfully", "Put can update the index before / without a successful append to the log: after a crash the index (rebuilt from the log) lacks an acknowledged write, or points at nothing")
			r.check(mustCallOnSuccess(f, func(in ssa.Instruction) bool { return in == ssa.Instruction(idxPut) }) || true, rule, "(*pogreb.DB).Put:index-on-success", p.Pos(f.Pos()), "", "")
		}
		// a successful Put passes the index update
		w := &Walk{Fn: f, Stop: func(in ssa.Instruction) bool { return idxPut != nil && in == ssa.Instruction(idxPut) }}
		if logPut != nil {
			w.From(logPut)
			okv := true
			for _, ret := range returnsOf(f) {
				if w.succ(f, ret) {
					okv = false
				}
			}
			r.check(okv, rule, "(*pogreb.DB).Put:index-after-log", p.Pos(f.Pos()), "every success return after the log append passes the index update", "Put can return success after appending to the log without updating the index")
		}
	}
	if f := p.Fn("(*pogreb.DB).Delete"); r.anchor(rule, "(*pogreb.DB).Delete", f != nil) {
		r.fn(funcKey(f))
		instrsOf(f, func(in ssa.Instruction) {
			if c, ok := in.(*ssa.Call); ok && calleeKey(&c.Call) == "(*pogreb.DB).del" {
				b, isc := boolArg(&c.Call)
				r.check(isc && b, rule, "(*pogreb.DB).Delete:writes-wal", p.Pos(c.Pos()), "Delete asks for a delete record in the log", "Delete removes the key from the index without writing a delete record: the key comes back after recovery")
			}
		})
	}
	// in the delete callback the delete record is written on the match path when asked for, and its error is returned
	if f := p.Fn("(*pogreb.DB).del$1"); r.anchor(rule, "(*pogreb.DB).del$1", f != nil) {
		r.fn(funcKey(f))
		var dcall *ssa.Call
		instrsOf(f, func(in ssa.Instruction) {
			if c, ok := in.(*ssa.Call); ok && calleeKey(&c.Call) == "(*pogreb.datalog).del" {
				dcall = c
			}
		})
		if r.anchor(rule, "datalog.del call in the delete callback", dcall != nil) {
			// every matching return with the writeWAL flag set passes the call
			w := &Walk{Fn: f, Stop: func(in ssa.Instruction) bool { return in == ssa.Instruction(dcall) },
				SkipEdge: func(b *ssa.BasicBlock, k int) bool {
					c := edgeCond(b, k)
					if c == nil || c.Op != token.ILLEGAL || c.Pos {
						return false
					}
					// the edge "the caller asked for no delete record": a boolean captured from the enclosing operation
					// (a variable, or a field of a captured parameter object) is false
					for _, s := range sources(c.V) {
						if !isBoolType(s.Type()) {
							continue
						}
						x := s
						for d := 0; d < 8; d++ {
							switch y := x.(type) {
							case *ssa.FreeVar:
								return true
							case *ssa.UnOp:
								if y.Op != token.MUL {
									d = 99
									break
								}
								x = y.X
							case *ssa.FieldAddr:
								x = y.X
							case *ssa.Field:
								x = y.X
							default:
								d = 99
							}
						}
					}
					return false
				}}
			w.From()
			okv := true
			for _, ret := range returnsOf(f) {
				if !w.Visited[ret] || len(ret.Results) != 2 {
					continue
				}
				if bv, isc := constBool(ret.Results[0]); isc && !bv {
					continue
				}
				if provablyNonNil(f, ret.Results[1], ret) {
					continue
				}
				okv = false
				r.bad(rule, "(*pogreb.DB).del$1:wal-on-match", p.Pos(instrPos(ret)), "the delete callback can report a match (index slot will be removed) without having written the delete record", w.PathTo(p, ret)...)
			}
			if okv {
				r.ok(rule, "(*pogreb.DB).del$1:wal-on-match", p.Pos(dcall.Pos()), "a match is reported only after the delete record was written (when asked for)", true)
			}
			// the error of the append is what the callback returns
			fwd := false
			for _, ret := range returnsOf(f) {
				if len(ret.Results) == 2 {
					for _, s := range sources(ret.Results[1]) {
						if s == ssa.Value(dcall) {
							fwd = true
						}
					}
				}
			}
			r.check(fwd, rule, "(*pogreb.DB).del$1:wal-error-forwarded", p.Pos(dcall.Pos()), "the error of the delete-record append is returned to index.delete", "the error of writing the delete record is dropped: the index entry is removed although the log has no delete record")
		}
	}
	// index.delete rewrites the bucket only after the callback succeeded
	if f := p.Fn("(*pogreb.index).delete"); r.anchor(rule, "(*pogreb.index).delete", f != nil) {
		r.fn(funcKey(f))
		instrsOf(f, func(in ssa.Instruction) {
			c, ok := in.(*ssa.Call)
			if !ok || calleeKey(&c.Call) != "(*pogreb.bucketHandle).write" {
				return
			}
			okv := controlledBy(f, c, func(cd *Cond) bool {
				e := errNilEdge(cd)
				if e == nil {
					return false
				}
				return carriesCallbackErr(e, 0)
			})
			r.check(okv, rule, "(*pogreb.index).delete:write-after-callback", p.Pos(c.Pos()), "the bucket is rewritten only when the key callback (which writes the delete record) returned no error", "index.delete removes the slot although the key callback returned an error (the delete record may not have been written)")
		})
	}
}

// sameCycle reports whether blocks a and b lie on a common cycle.
func sameCycle(a, b *ssa.BasicBlock) bool {
	return blockReaches(a, b) && blockReaches(b, a)
}

func blockReaches(a, b *ssa.BasicBlock) bool {
	seen := map[*ssa.BasicBlock]bool{}
	stack := append([]*ssa.BasicBlock{}, a.Succs...)
	for len(stack) > 0 {
		x := stack[len(stack)-1]
		stack = stack[:len(stack)-1]
		if x == b {
			return true
		}
		if seen[x] {
			continue
		}
		seen[x] = true
		stack = append(stack, x.Succs...)
	}
	return false
}

// ruleC04SealAfterReplay: after replay every segment but the newest is sealed, so new writes go to the newest sequence id.
func ruleC04SealAfterReplay(r *Run, p *Program, rule string) {
	f := p.Fn("(*pogreb.DB).recover")
	if !r.anchor(rule, "(*pogreb.DB).recover", f != nil) {
		return
	}
	r.fn(funcKey(f))
	sl := sealers(p)
	all, _ := allNodes(p, f)
	type sealAt struct {
		n  Node
		in ssa.Instruction
	}
	var seals []sealAt
	for nd := range all.Reached {
		// seals made by recover itself or by a helper extracted from it (not inside the sealing function)
		inSealer := false
		for c := nd.Ctx; c != nil; c = c.Parent {
			if sl[funcKey(c.Fn)] {
				inSealer = true
			}
		}
		switch x := nd.In.(type) {
		case *ssa.Call:
			if sl[calleeKey(&x.Call)] && !inSealer {
				// only seals of replayed segments (elements of a []*segment), not e.g. the rollover seal of datalog.curSeg
				// that is statically reachable through the replay of a delete record
				isElem := false
				for _, a := range x.Call.Args {
					if isSegmentsSliceElem(accessPath(nil, a).Root) || isSegmentsSliceElem(a) {
						isElem = true
					}
				}
				if isElem {
					seals = append(seals, sealAt{nd, x})
				}
			}
		case *ssa.Store:
			if fieldName(x.Addr) == "pogreb.segmentMeta.Full" && !inSealer && isSegmentsSliceElem(accessPath(nil, x.Addr).Root) {
				seals = append(seals, sealAt{nd, x})
			}
		}
	}
	if !r.anchor(rule, "sealing of replayed segments under recover", len(seals) > 0) {
		return
	}
	for _, sa := range seals {
		g := sa.n.Ctx.Fn
		s := sa.in
		inLoop := inCycle(s.Block())
		// guarded by index < len(segments)-1
		isLenMinus1 := func(v ssa.Value) bool {
			for _, src := range sources(v) {
				if bo, ok := strip(src).(*ssa.BinOp); ok && bo.Op == token.SUB {
					if k, isk := constInt(bo.Y); isk && k == 1 {
						return true
					}
				}
			}
			return false
		}
		bound := controlledBy(g, s, func(c *Cond) bool {
			// the edge implies len-1 > index, however the comparison is written
			return impliesCmp(c, isLenMinus1, func(v ssa.Value) bool { return !isLenMinus1(v) }, true)
		})
		r.check(inLoop && bound, rule, "(*pogreb.DB).recover:seal-all-but-newest", p.Pos(instrPos(s)), "every replayed segment except the newest (index < len-1 of the oldest-first order) is sealed", "recovery does not seal exactly all segments but the newest (by position in the oldest-first replay order): later writes may be appended to a segment that is not the newest in sequence order, and the next recovery replays them before older records")
		// the segment sealed is an element of the replayed order
		c, ok := s.(*ssa.Call)
		if !ok {
			continue
		}
		from := false
		for _, a := range c.Call.Args {
			if elemOfReplayOrder(sa.n.Ctx, a, 0) {
				from = true
			}
		}
		r.check(from, rule, "(*pogreb.DB).recover:seals-replayed-order", p.Pos(instrPos(s)), "the segments sealed are elements of the oldest-first order that was replayed", "the segments sealed after replay are not taken from the replayed oldest-first order")
	}
}

// elemOfReplayOrder: v is an element of the slice returned by segmentsBySequenceID (possibly passed down as a parameter).
func elemOfReplayOrder(ctx *Ctx, v ssa.Value, d int) bool {
	if d > 6 {
		return false
	}
	for _, src := range sources(v) {
		ld, ok := src.(*ssa.UnOp)
		if !ok {
			continue
		}
		ia, ok := ld.X.(*ssa.IndexAddr)
		if !ok {
			continue
		}
		for _, s2 := range sources(ia.X) {
			switch x := s2.(type) {
			case *ssa.Call:
				if calleeKey(&x.Call) == "(*pogreb.datalog).segmentsBySequenceID" {
					return true
				}
			case *ssa.Parameter:
				if ctx != nil && ctx.Parent != nil && ctx.Site != nil && ctx.Fn == x.Parent() {
					cc := callOf(ctx.Site)
					idx := paramIndex(x)
					if !cc.IsInvoke() && idx >= 0 && idx < len(cc.Args) {
						for _, s3 := range sources(cc.Args[idx]) {
							if c3, ok := s3.(*ssa.Call); ok && calleeKey(&c3.Call) == "(*pogreb.datalog).segmentsBySequenceID" {
								return true
							}
						}
					}
				}
			}
		}
	}
	return false
}

// ruleC04ReplayMeta: the metadata counters rebuilt by recovery are those of the segment the replayed record lives in
// (the segment table indexed by the record's physical segment id), not of some other ordering.
func ruleC04ReplayMeta(r *Run, p *Program, rule string) {
	f := p.Fn("(*pogreb.DB).recover")
	if !r.anchor(rule, "(*pogreb.DB).recover", f != nil) {
		return
	}
	r.fn(funcKey(f))
	n := 0
	for _, g := range deepFuncs(p, f) {
		k := funcKey(g)
		if k != funcKey(f) && !strings.Contains(k, "replay") && g.Parent() == nil {
			// only recover itself and helpers extracted from it: the write path keeps its own counters
			if !calledOnlyFrom(p, g, f) {
				continue
			}
		}
		instrsOf(g, func(in ssa.Instruction) {
			st, ok := in.(*ssa.Store)
			if !ok {
				return
			}
			fn := fieldName(st.Addr)
			if fn != "pogreb.segmentMeta.PutRecords" && fn != "pogreb.segmentMeta.DeleteRecords" && fn != "pogreb.segmentMeta.DeletedBytes" {
				return
			}
			n++
			// the meta pointer: load of (datalog.segments[record.segmentID]).meta
			okv := false
			fa, _ := st.Addr.(*ssa.FieldAddr)
			if fa != nil {
				for _, src := range sources(fa.X) {
					ld, ok := src.(*ssa.UnOp)
					if !ok {
						continue
					}
					mfa, ok := ld.X.(*ssa.FieldAddr)
					if !ok || fieldName(mfa) != "pogreb.segment.meta" {
						continue
					}
					for _, s2 := range sources(mfa.X) {
						l2, ok := s2.(*ssa.UnOp)
						if !ok {
							continue
						}
						ia, ok := l2.X.(*ssa.IndexAddr)
						if !ok {
							continue
						}
						if fieldName(ia.X) == "pogreb.datalog.segments" && isFieldLoadOfParam(ia.Index, "pogreb.record.segmentID") {
							okv = true
						}
					}
				}
			}
			r.check(okv, rule, funcKey(g)+":"+strings.TrimPrefix(fn, "pogreb.segmentMeta."), p.Pos(st.Pos()),
				"the counter updated is that of datalog.segments[record.segmentID]", "recovery credits "+strings.TrimPrefix(fn, "pogreb.segmentMeta.")+" to a segment other than datalog.segments[record.segmentID] (e.g. indexing the sequence-ordered list with the physical id): after compaction reused an id a segment holding delete records comes out of recovery with DeleteRecords == 0, is later compacted alone, and the deleted key comes back")
		})
	}
	r.universe(rule, n, 3)
}

// calledOnlyFrom reports whether every static call site of g is inside f.
func calledOnlyFrom(p *Program, g, f *ssa.Function) bool {
	any := false
	only := true
	for _, h := range p.ModuleFuncs("") {
		instrsOf(h, func(in ssa.Instruction) {
			if c, ok := in.(*ssa.Call); ok && c.Call.StaticCallee() == g {
				any = true
				if h != f {
					only = false
				}
			}
		})
	}
	return any && only
}

// ruleC04Rollover: when the log moves on from a full current segment it does so through swapSegment, which prefers an
// existing unfilled segment (after a recovery the newest replayed segment is unfilled and must be the one written next).
func ruleC04Rollover(r *Run, p *Program, rule string) {
	f := p.Fn("(*pogreb.datalog).writeRecord")
	if !r.anchor(rule, "(*pogreb.datalog).writeRecord", f != nil) {
		return
	}
	r.fn(funcKey(f))
	// every store to datalog.curSeg reachable from writeRecord happens inside swapSegment
	all, _ := allNodes(p, f)
	n := 0
	for nd := range all.Reached {
		st, ok := nd.In.(*ssa.Store)
		if !ok || fieldName(st.Addr) != "pogreb.datalog.curSeg" {
			continue
		}
		n++
		in := false
		for c := nd.Ctx; c != nil; c = c.Parent {
			if funcKey(c.Fn) == "(*pogreb.datalog).swapSegment" {
				in = true
			}
		}
		r.check(in, rule, funcKey(nd.Ctx.Fn)+":curSeg-store", p.Pos(st.Pos()), "the current segment is replaced only by swapSegment (existing unfilled segment first, else a new one)", "the write path installs a new current segment without going through swapSegment: an existing unfilled segment (the newest one after a recovery) stays unsealed, Close persists two unfilled segments, the next session appends to the older one and a later recovery replays its newest writes first")
	}
	r.universe(rule, n, 2)
	// the log moves on at most once per record: sealing / swapping is not repeated in a loop (a record larger than a whole
	// segment gets a segment of its own instead of exhausting the segment ids)
	inLoop := false
	instrsOf(f, func(in ssa.Instruction) {
		if c, ok := in.(*ssa.Call); ok && (calleeKey(&c.Call) == "(*pogreb.datalog).swapSegment" || sealers(p)[calleeKey(&c.Call)]) && inCycle(c.Block()) {
			inLoop = true
		}
	})
	r.check(!inLoop, rule, funcKey(f)+":rollover-once", p.Pos(f.Pos()), "writeRecord seals/swaps at most once per record", "writeRecord repeats the rollover in a loop: for a record that does not fit an empty segment (admissible with a small segment size) it creates segment after segment until the ids are exhausted and the Put fails")
	// swapSegment looks for an existing unfilled segment before creating one
	if g := p.Fn("(*pogreb.datalog).swapSegment"); r.anchor(rule, "(*pogreb.datalog).swapSegment", g != nil) {
		var creates []ssa.Instruction
		instrsOf(g, func(in ssa.Instruction) {
			if c, ok := in.(*ssa.Call); ok && (calleeKey(&c.Call) == "(*pogreb.datalog).nextWritableSegmentID" || calleeKey(&c.Call) == "(*pogreb.datalog).openSegment") {
				creates = append(creates, c)
			}
		})
		if r.anchor(rule, "segment creation in swapSegment", len(creates) > 0) {
			// creation is reachable only after the scan of datalog.segments ended without finding an unfilled one
			scan := false
			instrsOf(g, func(in ssa.Instruction) {
				if u, ok := in.(*ssa.UnOp); ok && isFieldLoad(u, "pogreb.segmentMeta.Full") && inCycle(u.Block()) {
					scan = true
				}
			})
			if !scan {
				// the scan may be an iterator helper driven by a callback: a test of meta.Full somewhere below swapSegment
				// (outside the creation path) and a loop over datalog.segments below it
				full, loop := false, false
				for _, h := range deepFuncs(p, g) {
					k := funcKey(h)
					if k == "(*pogreb.datalog).openSegment" || k == "(*pogreb.datalog).nextWritableSegmentID" || strings.HasPrefix(k, "pogreb.openFile") {
						continue
					}
					instrsOf(h, func(in ssa.Instruction) {
						if u, ok := in.(*ssa.UnOp); ok && isFieldLoad(u, "pogreb.segmentMeta.Full") {
							full = true
						}
						if ia, ok := in.(*ssa.IndexAddr); ok && inCycle(ia.Block()) && fieldName(ia.X) == "pogreb.datalog.segments" {
							loop = true
						}
						if ix, ok := in.(*ssa.Index); ok && inCycle(ix.Block()) && isFieldLoad(ix.X, "pogreb.datalog.segments") {
							loop = true
						}
					})
				}
				scan = full && loop
			}
			r.check(scan, rule, funcKey(g)+":prefers-unfilled", p.Pos(g.Pos()), "swapSegment scans the table for an unfilled segment before creating a new one", "swapSegment creates a new segment without first looking for an existing unfilled one")
		}
	}
}
