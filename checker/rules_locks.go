package main

import (
	"fmt"
	"go/token"
	"go/types"
	"sort"
	"strings"

	"golang.org/x/tools/go/ssa"
)

var fileW = map[string]bool{"Write": true, "WriteAt": true, "Truncate": true, "Close": true, "Sync": true}
var fileR = map[string]bool{"Slice": true, "ReadAt": true, "Stat": true}
var fileCursor = map[string]bool{"Seek": true, "Read": true}

// ruleGuarded: every access to state guarded by DB.mu (and ItemIterator.mu) reachable from an API entry holds the lock in the right mode.
func ruleGuarded(r *Run, p *Program, rule string) {
	nAcc := 0
	entries := 0
	type vio struct{ construct, pos, detail string }
	seen := map[string]bool{}
	for _, e := range resolveLockEntries(p) {
		f := p.Fn(e.Key)
		if !r.anchor(rule, e.Key, f != nil) {
			continue
		}
		entries++
		w, _ := lockWalk(p, f, e.Init)
		if w.TooDeep {
			r.undecided(rule, e.Key, p.Pos(f.Pos()), "inlining bound exceeded")
		}
		var nodes []Node
		for n := range w.Reached {
			nodes = append(nodes, n)
		}
		sort.Slice(nodes, func(i, j int) bool { return nodes[i].In.Pos() < nodes[j].In.Pos() })
		okCount := 0
		for _, n := range nodes {
			r.Funcs[funcKey(n.Ctx.Fn)] = true
			held := mustHold(w, n)
			if a := guardedAccessOf(n); a != nil {
				nAcc++
				need := ""
				switch {
				case iterFields[a.What]:
					if !held["iter"] {
						need = "ItemIterator.mu"
					}
				case a.Write && !holdsWrite(held):
					need = "DB.mu (exclusive)"
				case !a.Write && !holdsRead(held):
					need = "DB.mu (shared or exclusive)"
				}
				if need != "" {
					key := funcKey(n.Ctx.Fn) + ":" + a.What + fmt.Sprint(a.Write)
					if !seen[key] {
						seen[key] = true
						op := "read"
						if a.Write {
							op = "write"
						}
						r.bad(rule, funcKey(n.Ctx.Fn)+":"+op+"("+a.What+")", p.Pos(instrPos(n.In)),
							fmt.Sprintf("%s of %s reachable from %s without %s held (held on every path: {%s}): unsynchronised access to shared index/log state", op, a.What, e.Key, need, lockSetString(held)), w.PathTo(n)...)
					}
				} else {
					okCount++
				}
				continue
			}
			// any other store into memory reachable from the handle the entry was called on (a field added to the
			// shared structures is covered without being listed)
			if st, ok := n.In.(*ssa.Store); ok {
				ap := accessPath(n.Ctx, st.Addr)
				if rp, isp := ap.Root.(*ssa.Parameter); isp && ap.Ctx != nil && ap.Ctx.Parent == nil && ap.Chain != "" && len(f.Params) > 0 && rp == f.Params[0] {
					nAcc++
					need := ""
					if typeName(derefType(rp.Type())) == "pogreb.ItemIterator" && strings.Count(ap.Chain, ".") == 1 {
						if !held["iter"] {
							need = "ItemIterator.mu"
						}
					} else if !holdsWrite(held) {
						need = "DB.mu (exclusive)"
					}
					if need != "" {
						key := funcKey(n.Ctx.Fn) + ":store:" + ap.Chain
						if !seen[key] {
							seen[key] = true
							r.bad(rule, funcKey(n.Ctx.Fn)+":write("+rp.Name()+ap.Chain+")", p.Pos(instrPos(n.In)),
								fmt.Sprintf("write to %s%s (memory shared through the handle) reachable from %s without %s held (held on every path: {%s}): concurrent callers of the read-side API race on it", rp.Name(), ap.Chain, e.Key, need, lockSetString(held)), w.PathTo(n)...)
						}
					} else {
						okCount++
					}
					continue
				}
			}
			if fe := sharedFileEvent(n); fe != nil {
				nAcc++
				need := ""
				switch {
				case fileW[fe.Method] && !holdsWrite(held):
					need = "DB.mu (exclusive)"
				case fileR[fe.Method] && !holdsRead(held):
					need = "DB.mu (shared or exclusive)"
				case fileCursor[fe.Method] && !(held["maint"] || held["OPEN"]):
					// compaction keeps a reader positioned on the source segment across its per-record sections of DB.mu:
					// only the maintenance lock keeps other users of the shared file position away
					need = "maintenanceMu"
				}
				if need != "" {
					key := funcKey(n.Ctx.Fn) + ":File." + fe.Method + fe.Recv.Chain
					if !seen[key] {
						seen[key] = true
						r.bad(rule, funcKey(n.Ctx.Fn)+":File."+fe.Method+"("+fe.Recv.String()+")", p.Pos(instrPos(n.In)),
							fmt.Sprintf("fs.File.%s on a shared index/segment file reachable from %s without %s held (held: {%s}): the mapping may be remapped or unmapped, the file closed or written concurrently", fe.Method, e.Key, need, lockSetString(held)), w.PathTo(n)...)
					}
				} else {
					okCount++
				}
			}
		}
		r.ok(rule, e.Key, p.Pos(f.Pos()), fmt.Sprintf("%d guarded accesses / shared-file calls reachable from this entry hold the required lock", okCount), true)
	}
	r.universe(rule, entries, 13)
	r.universe(rule+":accesses", nAcc, 150)
	r.CallSites += nAcc
}

// ruleOneSection: an API operation does not release DB.mu and take it again (its reads/writes form one critical section).
func ruleOneSection(r *Run, p *Program, rule string) {
	ents := []string{"(*pogreb.DB).Put", "(*pogreb.DB).Delete", "(*pogreb.DB).Get", "(*pogreb.DB).GetAppend", "(*pogreb.DB).Has", "(*pogreb.DB).Count", "(*pogreb.DB).Sync", "(*pogreb.ItemIterator).Next"}
	n := 0
	for _, k := range ents {
		f := p.Fn(k)
		if !r.anchor(rule, k, f != nil) {
			continue
		}
		n++
		r.fn(k)
		w, root := lockWalk(p, f, "")
		var rel, acq []Node
		accUnlocked := 0
		for nd := range w.Reached {
			cc := nodeCall(nd)
			if _, isReg := nd.In.(*ssa.Defer); isReg {
				continue
			}
			if l, op := lockOp(cc); l == "mu" {
				if op == "Unlock" || op == "RUnlock" {
					rel = append(rel, nd)
				} else {
					acq = append(acq, nd)
				}
			}
			_ = accUnlocked
		}
		if !r.anchor(rule, k+": acquires DB.mu", len(acq) > 0 && len(rel) > 0) {
			continue
		}
		w2 := &IPWalk{P: p}
		w2.Run(root, rel)
		bad := false
		for _, a := range acq {
			if w2.Reached[a] {
				bad = true
				r.bad(rule, k, p.Pos(instrPos(a.In)), k+" releases DB.mu and acquires it again: the operation is split over two critical sections, other operations can observe or change the state in between (not atomic)", w2.PathTo(a)...)
			}
		}
		if !bad {
			r.ok(rule, k, p.Pos(f.Pos()), "DB.mu is acquired once and never re-acquired after a release within the operation", true)
		}
		// the iterator's own mutex: "is an item queued?" and "take it" are one critical section
		if strings.HasSuffix(k, ".Next") {
			var irel, iacq []Node
			for nd := range w.Reached {
				if _, isReg := nd.In.(*ssa.Defer); isReg {
					continue
				}
				if l, op := lockOp(nodeCall(nd)); l == "iter" {
					if op == "Unlock" {
						irel = append(irel, nd)
					} else {
						iacq = append(iacq, nd)
					}
				}
			}
			if r.anchor(rule, k+": acquires ItemIterator.mu", len(iacq) > 0) {
				ibad := false
				if len(irel) > 0 {
					w3 := &IPWalk{P: p}
					w3.Run(root, irel)
					for _, a := range iacq {
						if w3.Reached[a] {
							ibad = true
							r.bad(rule, k+":iterator-mutex", p.Pos(instrPos(a.In)), k+" releases ItemIterator.mu and acquires it again: the check that an item is queued and its removal from the queue are separate critical sections, two goroutines sharing the iterator both see the same item (one then indexes an empty queue, or both return the same slices)", w3.PathTo(a)...)
						}
					}
				}
				if !ibad {
					r.ok(rule, k+":iterator-mutex", p.Pos(f.Pos()), "ItemIterator.mu is acquired once per Next", true)
				}
			}
		}
	}
	r.universe(rule, n, 6)
}

// ruleBalanced: every API entry returns with exactly the locks it was entered with.
func ruleBalanced(r *Run, p *Program, rule string) {
	n := 0
	for _, e := range resolveLockEntries(p) {
		f := p.Fn(e.Key)
		if f == nil {
			continue
		}
		n++
		r.fn(e.Key)
		w, _ := lockWalk(p, f, e.Init)
		bad := false
		for nd := range w.Reached {
			if _, ok := nd.In.(*ssa.Return); !ok || nd.Ctx.Parent != nil {
				continue
			}
			for st := range w.States[nd] {
				if st != e.Init {
					bad = true
					r.bad(rule, e.Key, p.Pos(instrPos(nd.In)), fmt.Sprintf("%s can return holding {%s} (entered with {%s}): a lock is leaked on some path (every later operation blocks) or released twice", e.Key, st, e.Init), w.PathTo(nd)...)
					break
				}
			}
		}
		if !bad {
			r.ok(rule, e.Key, p.Pos(f.Pos()), "every return leaves the lockset as on entry", true)
		}
	}
	r.universe(rule, n, 13)
}

// ruleLockOrder: acquisition order graph is acyclic, no re-entrant acquisition, no blocking wait while holding a lock.
func ruleLockOrder(r *Run, p *Program, rule string) {
	edges := map[string]string{}
	nAcq := 0
	for _, e := range resolveLockEntries(p) {
		f := p.Fn(e.Key)
		if f == nil {
			continue
		}
		r.fn(e.Key)
		w, _ := lockWalk(p, f, e.Init)
		for nd := range w.Reached {
			if _, isReg := nd.In.(*ssa.Defer); isReg {
				continue
			}
			cc := nodeCall(nd)
			l, op := lockOp(cc)
			if l != "" && (op == "Lock" || op == "RLock") {
				nAcq++
				for st := range w.States[nd] {
					for h := range lockSetParse(st) {
						if h == "OPEN" || strings.HasPrefix(h, "acq@") {
							continue
						}
						hl := strings.TrimSuffix(strings.TrimSuffix(h, ":W"), ":R")
						if hl == l {
							r.bad(rule, funcKey(nd.Ctx.Fn)+":reentry("+l+")", p.Pos(instrPos(nd.In)), fmt.Sprintf("%s acquires %s while already holding %s (reachable from %s): sync mutexes are not re-entrant, this deadlocks (RLock under a pending writer included)", funcKey(nd.Ctx.Fn), l, h, e.Key), w.PathTo(nd)...)
							continue
						}
						edges[hl+"->"+l] = p.Pos(instrPos(nd.In)) + " in " + funcKey(nd.Ctx.Fn)
					}
				}
			}
			// blocking waits
			blocking := ""
			if cc != nil && calleeKey(cc) == "(*sync.WaitGroup).Wait" {
				blocking = "WaitGroup.Wait"
			}
			if u, ok := nd.In.(*ssa.UnOp); ok && u.Op == token.ARROW {
				blocking = "channel receive"
			}
			if s, ok := nd.In.(*ssa.Select); ok && s.Blocking {
				blocking = "select"
			}
			if _, ok := nd.In.(*ssa.Send); ok {
				blocking = "channel send"
			}
			if blocking != "" {
				for st := range w.States[nd] {
					if st != "" && st != "OPEN" {
						r.bad(rule, funcKey(nd.Ctx.Fn)+":wait-under-lock", p.Pos(instrPos(nd.In)), fmt.Sprintf("%s while holding {%s} (reachable from %s): the awaited goroutine needs that lock to finish", blocking, st, e.Key), w.PathTo(nd)...)
						break
					}
				}
			}
		}
	}
	r.universe(rule, nAcq, 10)
	// cycle detection
	adj := map[string][]string{}
	var es []string
	for e := range edges {
		es = append(es, e)
		ab := strings.Split(e, "->")
		adj[ab[0]] = append(adj[ab[0]], ab[1])
	}
	sort.Strings(es)
	cyc := false
	var visit func(n string, stack map[string]bool) bool
	visit = func(n string, stack map[string]bool) bool {
		if stack[n] {
			return true
		}
		stack[n] = true
		for _, m := range adj[n] {
			if visit(m, stack) {
				return true
			}
		}
		delete(stack, n)
		return false
	}
	for n := range adj {
		if visit(n, map[string]bool{}) {
			cyc = true
		}
	}
	r.check(!cyc, rule, "lock-order-graph", "", "held->acquired graph is acyclic: "+strings.Join(es, ", "), "the lock acquisition order has a cycle: "+strings.Join(es, ", ")+" - two operations can deadlock")
}

// ruleGoroutine: lifecycle of the background worker.
func ruleGoroutine(r *Run, p *Program, rule string) {
	cancelField := "pogreb.DB.cancelBgWorker" // the field holding the worker's cancel function (found at the go statement)
	n := 0
	for _, f := range p.ModuleFuncs("") {
		if f.Pkg != p.MainS {
			continue
		}
		instrsOf(f, func(in ssa.Instruction) {
			g, ok := in.(*ssa.Go)
			if !ok {
				return
			}
			n++
			r.fn(funcKey(f))
			construct := funcKey(f) + ":go"
			pos := p.Pos(g.Pos())
			added := mustPrecede(f, g, func(x ssa.Instruction) bool {
				c, ok := x.(*ssa.Call)
				return ok && calleeKey(&c.Call) == "(*sync.WaitGroup).Add"
			})
			r.check(added, rule, construct+":wg-add", pos, "WaitGroup.Add precedes the go statement", "a goroutine is started without WaitGroup.Add before it: Close cannot wait for it")
			stored := mustPrecede(f, g, func(x ssa.Instruction) bool {
				st, ok := x.(*ssa.Store)
				if !ok || fieldName(st.Addr) == "" {
					return false
				}
				// the cancel function of context.WithCancel stored into a struct field (wherever that field lives)
				for _, s := range sources(st.Val) {
					if c, idx := callResult(s); c != nil && idx == 1 && c.Call.StaticCallee() != nil && c.Call.StaticCallee().String() == "context.WithCancel" {
						cancelField = fieldName(st.Addr)
						return true
					}
				}
				return false
			})
			r.check(stored, rule, construct+":cancel-stored", pos, "the cancel function is stored in DB.cancelBgWorker before the goroutine starts", "the goroutine is started before its cancel function is stored: Close may not be able to stop it")
			body, _, _ := resolveFuncValue(nil, g.Call.Value, 0)
			if body == nil {
				body = g.Call.StaticCallee()
			}
			if !r.anchor(rule, "goroutine body", body != nil) {
				return
			}
			r.fn(funcKey(body))
			// deferred Done in the entry block
			done := false
			for _, x := range body.Blocks[0].Instrs {
				if d, ok := x.(*ssa.Defer); ok && calleeKey(&d.Call) == "(*sync.WaitGroup).Done" {
					done = true
				}
			}
			r.check(done, rule, construct+":wg-done", pos, "the goroutine defers WaitGroup.Done first", "the goroutine does not defer WaitGroup.Done at its start: Close would wait forever or not at all")
			// the select (in the body or in a helper it calls per iteration) has a ctx.Done() case that leaves the loop
			rootCtx := &Ctx{Fn: body}
			all, _ := allNodesFrom(p, rootCtx)
			var selNode *Node
			for nd := range all.Reached {
				if _, ok := nd.In.(*ssa.Select); ok {
					nd := nd
					if selNode == nil || nd.In.Pos() < selNode.In.Pos() {
						selNode = &nd
					}
				}
			}
			if !r.anchor(rule, "select in goroutine body", selNode != nil) {
				return
			}
			sel := selNode.In.(*ssa.Select)
			doneIdx := -1
			for i, st := range sel.States {
				if c, ok := strip(st.Chan).(*ssa.Call); ok && c.Call.IsInvoke() && c.Call.Method.Name() == "Done" {
					doneIdx = i
				}
			}
			if !r.check(doneIdx >= 0, rule, construct+":ctx-done-case", pos, "the worker loop selects on ctx.Done()", "the worker loop has no ctx.Done() case: it cannot be cancelled") {
				return
			}
			// with the dispatch on the select's index fixed to the ctx.Done() case, the select is not reached again
			wsel := &IPWalk{P: p, SkipEdge: func(ctx *Ctx, b *ssa.BasicBlock, k int) bool {
				c := edgeCond(b, k)
				if c == nil {
					return false
				}
				eq, ok := c.holdsEq()
				if !ok {
					return false
				}
				ci, okc := constInt(c.Y)
				ex, okx := strip(c.X).(*ssa.Extract)
				if !okc || !okx || ex.Tuple != ssa.Value(sel) || ex.Index != 0 {
					return false
				}
				// this edge asserts (index == ci) == eq; we are in the case index == doneIdx
				return (int(ci) == doneIdx) != eq
			}}
			wsel.Run(rootCtx, []Node{*selNode})
			exits := !wsel.Reached[*selNode]
			r.check(exits, rule, construct+":ctx-done-returns", pos, "the ctx.Done() case leaves the loop", "the ctx.Done() case does not leave the worker loop: the goroutine survives Close")
		})
	}
	r.universe(rule, n, 1)
	// Close: cancel, then Wait, then Lock (the cancel and the wait may sit in a helper such as a stop() method)
	if f := p.Fn("(*pogreb.DB).Close"); r.anchor(rule, "(*pogreb.DB).Close", f != nil) {
		r.fn(funcKey(f))
		rootCtx := &Ctx{Fn: f}
		all, _ := allNodesFrom(p, rootCtx)
		var wait, lock, cancel []Node
		for nd := range all.Reached {
			c, ok := nd.In.(*ssa.Call)
			if !ok {
				continue
			}
			switch {
			case calleeKey(&c.Call) == "(*sync.WaitGroup).Wait":
				wait = append(wait, nd)
			case func() bool { l, op := lockOp(&c.Call); return l == "mu" && op == "Lock" }() && nd.Ctx.Parent == nil:
				lock = append(lock, nd)
			case isFieldLoad(c.Call.Value, cancelField):
				cancel = append(cancel, nd)
			}
		}
		if r.anchor(rule, "cancel call, WaitGroup.Wait and DB.mu.Lock in Close", len(wait) > 0 && len(lock) > 0 && len(cancel) > 0) {
			isIn := func(set []Node) func(n Node) bool {
				return func(n Node) bool {
					for _, x := range set {
						if x == n {
							return true
						}
					}
					return false
				}
			}
			w := &IPWalk{P: p, Visit: isIn(cancel),
				SkipEdge: func(ctx *Ctx, b *ssa.BasicBlock, k int) bool {
					c := edgeCond(b, k)
					if c == nil {
						return false
					}
					eq, ok := c.holdsEq()
					return ok && eq && ((isNilConst(c.Y) && isFieldLoad(c.X, cancelField)) || (isNilConst(c.X) && isFieldLoad(c.Y, cancelField)))
				}}
			w.Run(rootCtx, nil)
			early := false
			for _, x := range wait {
				if w.Reached[x] {
					early = true
				}
			}
			r.check(!early, rule, "(*pogreb.DB).Close:cancel-before-wait", p.Pos(instrPos(wait[0].In)), "Close cancels the worker (when there is one) before waiting for it", "Close can wait for the background worker without having cancelled it: deadlock")
			w2 := &IPWalk{P: p, Visit: isIn(wait)}
			w2.Run(rootCtx, nil)
			locked := false
			for _, x := range lock {
				if w2.Reached[x] {
					locked = true
				}
			}
			r.check(!locked, rule, "(*pogreb.DB).Close:wait-before-lock", p.Pos(instrPos(lock[0].In)), "Close waits for the worker before taking DB.mu", "Close takes DB.mu before the background worker has stopped: the worker's Sync/Compact then blocks forever on DB.mu while Close waits for it, or runs on closed files")
		}
	}
}

// ruleFSCalls: calls into the database's FileSystem without DB.mu (race with writers on implementations with shared state, e.g. fs.Mem).
func ruleFSCalls(r *Run, p *Program, rule string) {
	n := 0
	seen := map[string]bool{}
	for _, e := range resolveLockEntries(p) {
		f := p.Fn(e.Key)
		if f == nil {
			continue
		}
		w, _ := lockWalk(p, f, e.Init)
		var nodes []Node
		for nd := range w.Reached {
			nodes = append(nodes, nd)
		}
		sort.Slice(nodes, func(i, j int) bool { return nodes[i].In.Pos() < nodes[j].In.Pos() })
		for _, nd := range nodes {
			fe := fsEventOf(nd)
			if fe == nil || fe.Iface != "fs.FileSystem" {
				continue
			}
			if !strings.HasSuffix(fe.Recv.Chain, ".opts.FileSystem") && !strings.HasSuffix(fe.Recv.Chain, ".opts.rootFS") {
				continue // a derived file system (backup destination)
			}
			n++
			held := mustHold(w, nd)
			construct := e.Key + "->FileSystem." + fe.Method // keyed by the API entry, not by the helper the call sits in
			if seen[construct] {
				continue
			}
			seen[construct] = true
			if fe.Method == "MkdirAll" || holdsRead(held) {
				r.ok(rule, construct, p.Pos(instrPos(nd.In)), "directory operation on the database's file system made with DB.mu held (or before the DB is published)", true)
				continue
			}
			r.bad(rule, construct, p.Pos(instrPos(nd.In)), fmt.Sprintf("%s calls FileSystem.%s on the database's file system without DB.mu (held: {%s}) while writers create/remove files and append under DB.mu: on a FileSystem with unsynchronised shared state (fs.Mem: files map, memFile.buf/size/refs) this is a data race", funcKey(nd.Ctx.Fn), fe.Method, lockSetString(held)))
		}
	}
	r.universe(rule, n, 8)
}

// ruleC05PickSealAtomic: the segments to compact are chosen and sealed inside one exclusive section of DB.mu, so that no
// record (in particular no delete record) can be appended to a picked segment after the decision was made.
func ruleC05PickSealAtomic(r *Run, p *Program, rule string) {
	f := p.Fn("(*pogreb.DB).Compact")
	if !r.anchor(rule, "(*pogreb.DB).Compact", f != nil) {
		return
	}
	r.fn(funcKey(f))
	sl := sealers(p)
	w, _ := lockWalk(p, f, "")
	acqOf := func(nd Node) map[string]bool {
		out := map[string]bool{}
		first := true
		for st := range w.States[nd] {
			cur := map[string]bool{}
			for k := range lockSetParse(st) {
				if strings.HasPrefix(k, "acq@") {
					cur[k] = true
				}
			}
			if first {
				out, first = cur, false
				continue
			}
			for k := range out {
				if !cur[k] {
					delete(out, k)
				}
			}
		}
		return out
	}
	var pick *Node
	var seals []Node
	for nd := range w.Reached {
		nd := nd
		k := calleeOfNode(nil, nd)
		if k == "(*pogreb.DB).pickForCompaction" {
			pick = &nd
		}
		if sl[k] {
			seals = append(seals, nd)
		}
		if st, ok := nd.In.(*ssa.Store); ok && fieldName(st.Addr) == "pogreb.segmentMeta.Full" {
			seals = append(seals, nd)
		}
	}
	if !r.anchor(rule, "pickForCompaction call and segment sealing reachable from Compact", pick != nil && len(seals) > 0) {
		return
	}
	held := mustHold(w, *pick)
	r.check(held["mu:W"], rule, "(*pogreb.DB).Compact:pick-exclusive", p.Pos(instrPos(pick.In)), "the segments are picked with DB.mu held exclusively", "the segments to compact are picked without DB.mu held exclusively: writers append to the candidates while they are being judged")
	pa := acqOf(*pick)
	same := false
	for _, s := range seals {
		for k := range acqOf(s) {
			if pa[k] {
				same = true
			}
		}
	}
	r.check(same, rule, "(*pogreb.DB).Compact:pick-and-seal-one-section", p.Pos(instrPos(pick.In)),
		"the picked segments are sealed inside the same critical section of DB.mu in which they were picked",
		"the segments picked for compaction are sealed only later, in another critical section: a Delete acknowledged in between appends its delete record to a picked, still writable segment that was judged to hold none; compaction then drops the record without compacting the older segments and the deleted key comes back after a crash")
}

// ruleNoRetainedLocations: a segment location (an index slot: segment id + offset) is valid only while DB.mu is held -
// compaction repoints slots and removes segments between any two critical sections. The long-lived state reachable
// from the handles (*DB, *ItemIterator) and from package variables must therefore not be able to hold a slot (or a
// bucket full of them): locations are looked up afresh, under the lock, every time.
func ruleNoRetainedLocations(r *Run, p *Program, rule string) {
	slot := p.NamedType(p.Main, "slot")
	if !r.anchor(rule, "type pogreb.slot", slot != nil) {
		return
	}
	type root struct {
		name string
		t    types.Type
	}
	var roots []root
	for _, n := range []string{"DB", "ItemIterator"} {
		nt := p.NamedType(p.Main, n)
		if r.anchor(rule, "type pogreb."+n, nt != nil) {
			roots = append(roots, root{n, nt})
		}
	}
	sc := p.Main.Types.Scope()
	for _, nm := range sc.Names() {
		if v, ok := sc.Lookup(nm).(*types.Var); ok {
			roots = append(roots, root{"var " + nm, v.Type()})
		}
	}
	visited := 0
	for _, rt := range roots {
		seen := map[types.Type]bool{}
		var bad []string
		var walk func(t types.Type, path string)
		walk = func(t types.Type, path string) {
			if seen[t] {
				return
			}
			seen[t] = true
			if n, ok := t.(*types.Named); ok {
				if n == slot {
					bad = append(bad, path)
					return
				}
				if n.Obj().Pkg() == nil || !strings.HasPrefix(n.Obj().Pkg().Path(), modPath) {
					return // foreign types cannot hold a pogreb slot
				}
				visited++
			}
			switch u := t.Underlying().(type) {
			case *types.Struct:
				for i := 0; i < u.NumFields(); i++ {
					walk(u.Field(i).Type(), path+"."+u.Field(i).Name())
				}
			case *types.Pointer:
				walk(u.Elem(), path)
			case *types.Slice:
				walk(u.Elem(), path+"[]")
			case *types.Array:
				walk(u.Elem(), path+"[]")
			case *types.Map:
				walk(u.Key(), path+"[key]")
				walk(u.Elem(), path+"[]")
			case *types.Chan:
				walk(u.Elem(), path+"<-")
			}
		}
		walk(rt.t, rt.name)
		sort.Strings(bad)
		if len(bad) == 0 {
			r.ok(rule, rt.name, "", "no state reachable from "+rt.name+" can hold an index slot (segment location) across critical sections", true)
			continue
		}
		for _, b := range bad {
			r.bad(rule, b, "", b+" can hold an index slot (segment id and offset) beyond the critical section in which it was read: compaction repoints slots and removes or reuses segments between two sections, so the retained location later reads another record, or a removed segment (nil dereference)")
		}
	}
	r.universe(rule, visited, 8)
}

// ruleForgetUnlinkAtomic: a segment's slot in datalog.segments is released (set to nil) and its files are unlinked in
// one exclusive section of DB.mu. The physical id is free for swapSegment as soon as the slot is nil; if a writer can
// run before the old file is gone, a new file with the same physical id is created next to it, and after a crash
// openDatalog sees two files for one slot - the later name wins and the other segment's acknowledged records are
// never replayed.
func ruleForgetUnlinkAtomic(r *Run, p *Program, rule string) {
	f := p.Fn("(*pogreb.DB).Compact")
	if !r.anchor(rule, "(*pogreb.DB).Compact", f != nil) {
		return
	}
	r.fn(funcKey(f))
	w, _ := lockWalk(p, f, "")
	acqOf := func(nd Node) map[string]bool {
		out := map[string]bool{}
		first := true
		for st := range w.States[nd] {
			cur := map[string]bool{}
			for k := range lockSetParse(st) {
				if strings.HasPrefix(k, "acq@") {
					cur[k] = true
				}
			}
			if first {
				out, first = cur, false
				continue
			}
			for k := range out {
				if !cur[k] {
					delete(out, k)
				}
			}
		}
		return out
	}
	var forgets, unlinks []Node
	for nd := range w.Reached {
		if st, ok := nd.In.(*ssa.Store); ok && isNilConst(st.Val) {
			if ia, ok := st.Addr.(*ssa.IndexAddr); ok && fieldName(ia.X) == "pogreb.datalog.segments" {
				forgets = append(forgets, nd)
			}
		}
		if e := fsEventOf(nd); e != nil && e.Iface == "fs.FileSystem" && e.Method == "Remove" {
			unlinks = append(unlinks, nd)
		}
	}
	if !r.anchor(rule, "release of a datalog.segments slot and FileSystem.Remove reachable from Compact", len(forgets) > 0 && len(unlinks) > 0) {
		return
	}
	sort.Slice(unlinks, func(i, j int) bool { return unlinks[i].In.Pos() < unlinks[j].In.Pos() })
	for _, u := range unlinks {
		held := mustHold(w, u)
		ua := acqOf(u)
		same := false
		for _, fg := range forgets {
			for k := range acqOf(fg) {
				if ua[k] {
					same = true
				}
			}
		}
		r.check(held["mu:W"] && same, rule, funcKey(u.Ctx.Fn)+":unlink-in-forget-section", p.Pos(instrPos(u.In)),
			"the segment's files are unlinked with DB.mu held exclusively, in the section that released its slot",
			"a segment's file is unlinked outside the exclusive section of DB.mu in which its datalog.segments slot was released (held: {"+lockSetString(held)+"}): a writer that rolls over in between reuses the physical id while the old file still exists; after a crash in that window two files claim one slot and the segment whose name sorts first is shadowed - its acknowledged records are not replayed")
	}
	r.universe(rule, len(unlinks), 2)
}
