package main

import (
	"fmt"
	"go/token"
	"sort"
	"strings"

	"golang.org/x/tools/go/ssa"
)

// Lin is a linear form over named symbols: sum(coef*sym) + K.
type Lin struct {
	T map[string]int64
	K int64
}

func linConst(k int64) *Lin { return &Lin{T: map[string]int64{}, K: k} }
func linSym(s string) *Lin  { return &Lin{T: map[string]int64{s: 1}} }

func (a *Lin) add(b *Lin, sign int64) *Lin {
	r := &Lin{T: map[string]int64{}, K: a.K + sign*b.K}
	for k, v := range a.T {
		r.T[k] += v
	}
	for k, v := range b.T {
		r.T[k] += sign * v
	}
	for k, v := range r.T {
		if v == 0 {
			delete(r.T, k)
		}
	}
	return r
}

func (a *Lin) scale(c int64) *Lin {
	r := &Lin{T: map[string]int64{}, K: a.K * c}
	for k, v := range a.T {
		if v*c != 0 {
			r.T[k] = v * c
		}
	}
	return r
}

func (a *Lin) isConst() (int64, bool) {
	if len(a.T) == 0 {
		return a.K, true
	}
	return 0, false
}

func (a *Lin) String() string {
	var ks []string
	for k := range a.T {
		ks = append(ks, k)
	}
	sort.Strings(ks)
	var parts []string
	for _, k := range ks {
		c := a.T[k]
		switch c {
		case 1:
			parts = append(parts, k)
		default:
			parts = append(parts, fmt.Sprintf("%d*%s", c, k))
		}
	}
	if a.K != 0 || len(parts) == 0 {
		parts = append(parts, fmt.Sprint(a.K))
	}
	return strings.Join(parts, "+")
}

// LinEnv evaluates integer SSA values of one function to linear forms.
type LinEnv struct {
	// Sym names a value as a symbol (return "" to keep evaluating structurally).
	Sym   func(v ssa.Value) string
	Subst map[ssa.Value]*Lin // parameter substitution when inlining
	Ctx   *Ctx               // call-string context: parameters are replaced by the caller's arguments
	depth int
}

// inCtx returns a copy of the environment for another context.
func (e *LinEnv) inCtx(c *Ctx) *LinEnv {
	return &LinEnv{Sym: e.Sym, Subst: e.Subst, Ctx: c, depth: e.depth}
}

func (e *LinEnv) Eval(v ssa.Value) *Lin {
	if e.depth > 40 {
		return nil
	}
	e.depth++
	defer func() { e.depth-- }()
	if l, ok := e.Subst[v]; ok {
		return l
	}
	if e.Sym != nil {
		if s := e.Sym(v); s != "" {
			return linSym(s)
		}
	}
	switch x := v.(type) {
	case *ssa.Const:
		if k, ok := constInt(x); ok {
			return linConst(k)
		}
		return nil
	case *ssa.Convert:
		return e.Eval(x.X)
	case *ssa.ChangeType:
		return e.Eval(x.X)
	case *ssa.BinOp:
		a, b := e.Eval(x.X), e.Eval(x.Y)
		if a == nil || b == nil {
			return nil
		}
		switch x.Op {
		case token.ADD:
			return a.add(b, 1)
		case token.SUB:
			return a.add(b, -1)
		case token.MUL:
			if k, ok := a.isConst(); ok {
				return b.scale(k)
			}
			if k, ok := b.isConst(); ok {
				return a.scale(k)
			}
		case token.SHL:
			if k, ok := b.isConst(); ok && k < 62 {
				return a.scale(1 << uint(k))
			}
		}
		return nil
	case *ssa.Call:
		if b, ok := x.Call.Value.(*ssa.Builtin); ok && b.Name() == "len" {
			// len of a tracked slice is resolved by the caller through Sym; default symbol
			return linSym("len(" + valString(x.Call.Args[0]) + ")")
		}
		if f := x.Call.StaticCallee(); f != nil && inModule(f) {
			rets := returnsOf(f)
			if len(rets) == 1 && len(rets[0].Results) == 1 {
				child := &Ctx{Parent: e.Ctx, Site: x, Fn: f}
				if e.Ctx == nil {
					child.Parent = &Ctx{Fn: x.Parent()}
				}
				return e.inCtx(child).Eval(rets[0].Results[0])
			}
		}
		return nil
	case *ssa.Extract:
		if c, ok := x.Tuple.(*ssa.Call); ok {
			if f := c.Call.StaticCallee(); f != nil && inModule(f) {
				rets := returnsOf(f)
				if len(rets) == 1 && x.Index < len(rets[0].Results) {
					child := &Ctx{Parent: e.Ctx, Site: c, Fn: f}
					if e.Ctx == nil {
						child.Parent = &Ctx{Fn: c.Parent()}
					}
					return e.inCtx(child).Eval(rets[0].Results[x.Index])
				}
			}
		}
		return nil
	case *ssa.Parameter:
		if e.Ctx != nil && e.Ctx.Parent != nil && e.Ctx.Site != nil && e.Ctx.Fn == x.Parent() {
			cc := callOf(e.Ctx.Site)
			idx := paramIndex(x)
			if !cc.IsInvoke() && idx >= 0 && idx < len(cc.Args) {
				return e.inCtx(e.Ctx.Parent).Eval(cc.Args[idx])
			}
		}
		return linSym("param:" + x.Name())
	case *ssa.UnOp:
		if x.Op == token.MUL {
			if a, ok := x.X.(*ssa.Alloc); ok {
				st := allocStores(a)
				if len(st) == 1 {
					return e.Eval(st[0])
				}
			}
			if fa, ok := x.X.(*ssa.FieldAddr); ok {
				if a, ok := fa.X.(*ssa.Alloc); ok {
					return e.fieldOfLocal(a, fa.Field)
				}
			}
		}
		return nil
	case *ssa.Field:
		return e.fieldOf(x.X, x.Field, 0)
	case *ssa.Phi:
		// a phi whose incoming values all evaluate to the same form
		var first *Lin
		for _, ed := range x.Edges {
			l := e.Eval(ed)
			if l == nil {
				return nil
			}
			if first == nil {
				first = l
			} else if first.String() != l.String() {
				return nil
			}
		}
		return first
	}
	return nil
}

// fieldOfLocal evaluates field idx of a local struct cell: all stores to that field must evaluate to the same form.
func (e *LinEnv) fieldOfLocal(a *ssa.Alloc, idx int) *Lin {
	var first *Lin
	refs := a.Referrers()
	if refs == nil {
		return nil
	}
	n := 0
	for _, rf := range *refs {
		fa, ok := rf.(*ssa.FieldAddr)
		if !ok || fa.Field != idx {
			continue
		}
		for _, sv := range allocStores(fa) {
			n++
			l := e.Eval(sv)
			if l == nil {
				return nil
			}
			if first == nil {
				first = l
			} else if first.String() != l.String() {
				return nil
			}
		}
	}
	// whole-struct stores (p := someStruct) are not followed
	if n == 0 {
		for _, sv := range allocStores(a) {
			return e.fieldOf(sv, idx, 1)
		}
	}
	return first
}

// fieldOf evaluates field idx of a struct value: a load of a local cell, the result of a module call, or a parameter.
func (e *LinEnv) fieldOf(base ssa.Value, idx int, d int) *Lin {
	if d > 8 {
		return nil
	}
	base = strip(base)
	switch b := base.(type) {
	case *ssa.UnOp:
		if b.Op == token.MUL {
			if a, ok := b.X.(*ssa.Alloc); ok {
				return e.fieldOfLocal(a, idx)
			}
		}
	case *ssa.Call:
		if f := b.Call.StaticCallee(); f != nil && inModule(f) {
			rets := returnsOf(f)
			if len(rets) == 1 && len(rets[0].Results) == 1 {
				child := &Ctx{Parent: e.Ctx, Site: b, Fn: f}
				if e.Ctx == nil {
					child.Parent = &Ctx{Fn: b.Parent()}
				}
				return e.inCtx(child).fieldOf(rets[0].Results[0], idx, d+1)
			}
		}
	case *ssa.Extract:
		if c, ok := b.Tuple.(*ssa.Call); ok {
			if f := c.Call.StaticCallee(); f != nil && inModule(f) {
				rets := returnsOf(f)
				if len(rets) == 1 && b.Index < len(rets[0].Results) {
					child := &Ctx{Parent: e.Ctx, Site: c, Fn: f}
					if e.Ctx == nil {
						child.Parent = &Ctx{Fn: c.Parent()}
					}
					return e.inCtx(child).fieldOf(rets[0].Results[b.Index], idx, d+1)
				}
			}
		}
	case *ssa.Parameter:
		if e.Ctx != nil && e.Ctx.Parent != nil && e.Ctx.Site != nil && e.Ctx.Fn == b.Parent() {
			cc := callOf(e.Ctx.Site)
			pi := paramIndex(b)
			if !cc.IsInvoke() && pi >= 0 && pi < len(cc.Args) {
				return e.inCtx(e.Ctx.Parent).fieldOf(cc.Args[pi], idx, d+1)
			}
		}
	}
	return nil
}

// sliceRef is a byte slice value resolved to (root buffer, absolute offset, optional end).
type sliceRef struct {
	Root ssa.Value
	Off  *Lin
	End  *Lin // nil = to the end of the root
}

// SliceEnv resolves slices of a root buffer, handling one "cursor" phi advanced by a constant per loop iteration.
type SliceEnv struct {
	Lin     *LinEnv
	RootLen map[ssa.Value]*Lin // known total length of a root buffer
	LoopN   int64              // iteration count of the (single) counted loop, 0 if none
	InLoop  func(in ssa.Instruction) bool
	LoopNOf func(ph *ssa.Phi) int64
	at      ssa.Instruction
}

// Resolve computes the absolute position of slice value v, as seen from instruction `at`.
func (s *SliceEnv) Resolve(ctx *Ctx, v ssa.Value, at ssa.Instruction) *sliceRef {
	s.at = at
	return s.res(ctx, v, 0)
}

func (s *SliceEnv) res(ctx *Ctx, v ssa.Value, d int) *sliceRef {
	if d > 30 {
		return nil
	}
	v = strip(v)
	switch x := v.(type) {
	case *ssa.Slice:
		base := s.res(ctx, x.X, d+1)
		if base == nil {
			return nil
		}
		r := &sliceRef{Root: base.Root, Off: base.Off, End: base.End}
		// len of the base as seen here
		lenEnv := &LinEnv{Sym: func(y ssa.Value) string { return "" }, Subst: map[ssa.Value]*Lin{}}
		_ = lenEnv
		evalIdx := func(iv ssa.Value) *Lin {
			env := *s.Lin
			env.Ctx = ctx
			prev := env.Sym
			env.Sym = func(y ssa.Value) string {
				if c, ok := y.(*ssa.Call); ok {
					if b, ok := c.Call.Value.(*ssa.Builtin); ok && b.Name() == "len" && strip(c.Call.Args[0]) == strip(x.X) {
						return "@len"
					}
				}
				if prev != nil {
					return prev(y)
				}
				return ""
			}
			l := env.Eval(iv)
			if l == nil {
				return nil
			}
			if c, ok := l.T["@len"]; ok {
				// substitute the base length
				var bl *Lin
				if base.End != nil {
					bl = base.End.add(base.Off, -1)
				} else if rl, ok := s.RootLen[base.Root]; ok {
					bl = rl.add(base.Off, -1)
				} else {
					return nil
				}
				delete(l.T, "@len")
				l = l.add(bl.scale(c), 1)
			}
			return l
		}
		if x.Low != nil {
			l := evalIdx(x.Low)
			if l == nil {
				return nil
			}
			r.Off = base.Off.add(l, 1)
		}
		if x.High != nil {
			h := evalIdx(x.High)
			if h == nil {
				return nil
			}
			r.End = base.Off.add(h, 1)
		}
		return r
	case *ssa.Phi:
		// cursor: phi [init, phi[c:]] -> init + c*i inside the loop, init + c*N after it
		if len(x.Edges) != 2 {
			return nil
		}
		var init *sliceRef
		var step *Lin
		for _, e := range x.Edges {
			if sl, ok := strip(e).(*ssa.Slice); ok && strip(sl.X) == ssa.Value(x) && sl.High == nil && sl.Low != nil {
				step = s.Lin.inCtx(ctx).Eval(sl.Low)
			} else {
				init = s.res(ctx, e, d+1)
			}
		}
		if init == nil || step == nil {
			return nil
		}
		c, ok := step.isConst()
		if !ok {
			return nil
		}
		if s.InLoop != nil && s.InLoop(s.at) {
			return &sliceRef{Root: init.Root, Off: init.Off.add(linSym("i").scale(c), 1), End: init.End}
		}
		n := s.LoopN
		if s.LoopNOf != nil {
			n = s.LoopNOf(x)
		}
		return &sliceRef{Root: init.Root, Off: init.Off.add(linConst(c*n), 1), End: init.End}
	case *ssa.Parameter:
		if ctx != nil && ctx.Parent != nil && ctx.Site != nil && ctx.Fn == x.Parent() {
			cc := callOf(ctx.Site)
			idx := paramIndex(x)
			if !cc.IsInvoke() && idx >= 0 && idx < len(cc.Args) {
				return s.res(ctx.Parent, cc.Args[idx], d+1)
			}
		}
		return &sliceRef{Root: v, Off: linConst(0)}
	case *ssa.MakeSlice, *ssa.Alloc, *ssa.FieldAddr, *ssa.Global:
		return &sliceRef{Root: v, Off: linConst(0)}
	case *ssa.UnOp:
		if x.Op == token.MUL {
			if a, ok := x.X.(*ssa.Alloc); ok {
				st := allocStores(a)
				if len(st) == 1 {
					return s.res(ctx, st[0], d+1)
				}
			}
			// a field holding a buffer (segmentIterator.buf)
			return &sliceRef{Root: v, Off: linConst(0)}
		}
	case *ssa.Call:
		return &sliceRef{Root: v, Off: linConst(0)}
	}
	return nil
}

func (r *sliceRef) Range() string {
	if r == nil {
		return "?"
	}
	if r.End == nil {
		return "[" + r.Off.String() + ":]"
	}
	return "[" + r.Off.String() + ":" + r.End.String() + "]"
}
