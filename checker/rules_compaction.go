package main

import (
	"fmt"
	"go/constant"
	"go/token"
	"go/types"
	"sort"
	"strings"

	"golang.org/x/tools/go/ssa"
)

// sealers: module functions that (directly) store true into segmentMeta.Full.
func sealers(p *Program) map[string]bool {
	out := map[string]bool{}
	for _, f := range p.ModuleFuncs("") {
		instrsOf(f, func(in ssa.Instruction) {
			if st, ok := in.(*ssa.Store); ok && fieldName(st.Addr) == "pogreb.segmentMeta.Full" {
				if b, isc := constBool(st.Val); !isc || b {
					out[funcKey(f)] = true
				}
			}
		})
	}
	return out
}

// ruleC05SealFirst: compact seals its source (under the exclusive lock) before reading it.
func ruleC05SealFirst(r *Run, p *Program, rule string) {
	f := p.Fn("(*pogreb.DB).compact")
	if !r.anchor(rule, "(*pogreb.DB).compact", f != nil) {
		return
	}
	r.fn(funcKey(f))
	sl := sealers(p)
	var src *ssa.Parameter
	for _, pa := range f.Params {
		if typeName(pa.Type()) == "*pogreb.segment" {
			src = pa
		}
	}
	if !r.anchor(rule, "source segment parameter of compact", src != nil) {
		return
	}
	isSeal := func(in ssa.Instruction) bool {
		switch x := in.(type) {
		case *ssa.Call:
			if sl[calleeKey(&x.Call)] {
				for _, a := range x.Call.Args {
					if strip(a) == ssa.Value(src) {
						return true
					}
				}
			}
		case *ssa.Store:
			if fieldName(x.Addr) == "pogreb.segmentMeta.Full" {
				ap := accessPath(nil, x.Addr)
				return ap.Root == ssa.Value(src)
			}
		}
		return false
	}
	var iters []ssa.Instruction
	instrsOf(f, func(in ssa.Instruction) {
		if c, ok := in.(*ssa.Call); ok && calleeKey(&c.Call) == "pogreb.newSegmentIterator" {
			iters = append(iters, c)
		}
	})
	if !r.anchor(rule, "newSegmentIterator call in compact", len(iters) > 0) {
		return
	}
	for _, it := range iters {
		r.check(mustPrecede(f, it, isSeal), rule, funcKey(f)+":seal-before-read", p.Pos(it.Pos()),
			"the source segment is sealed (meta.Full) before its records are read",
			"compaction starts reading the source segment without sealing it first: writers keep appending to a segment whose records are being moved and which is then removed")
	}
	// the seal happens under DB.mu:W
	w, _ := lockWalk(p, f, "maint")
	n := 0
	for nd := range w.Reached {
		if nd.Ctx.Parent == nil && isSeal(nd.In) {
			n++
			held := mustHold(w, nd)
			r.check(held["mu:W"], rule, funcKey(f)+":seal-locked", p.Pos(instrPos(nd.In)), "the seal is made with DB.mu held exclusively", "the source segment is sealed without DB.mu held exclusively: a concurrent writer may be between its 'is full' test and its append")
		}
	}
	r.universe(rule, n, 1)
}

// ruleC05SwapNeverSealed: swapSegment installs only a segment that is not full, or a freshly opened one.
func ruleC05SwapNeverSealed(r *Run, p *Program, rule string) {
	f := p.Fn("(*pogreb.datalog).swapSegment")
	if !r.anchor(rule, "(*pogreb.datalog).swapSegment", f != nil) {
		return
	}
	r.fn(funcKey(f))
	n := 0
	instrsOf(f, func(in ssa.Instruction) {
		st, ok := in.(*ssa.Store)
		if !ok || fieldName(st.Addr) != "pogreb.datalog.curSeg" {
			return
		}
		n++
		// every value that can reach the store - directly, or through a local variable that a callback assigns -
		// is a freshly opened segment, nil, or a segment that was tested "not full" where it was chosen
		type site struct {
			at  ssa.Instruction
			val ssa.Value
		}
		var leaves []site
		seenCell := map[ssa.Value]bool{}
		var expand func(at ssa.Instruction, v ssa.Value, d int)
		var cellStores func(cell ssa.Value, d int)
		cellStores = func(cell ssa.Value, d int) {
			if seenCell[cell] || d > 6 || cell.Referrers() == nil {
				return
			}
			seenCell[cell] = true
			for _, u := range *cell.Referrers() {
				switch x := u.(type) {
				case *ssa.Store:
					if x.Addr == cell {
						expand(x, x.Val, d+1)
					}
				case *ssa.MakeClosure:
					if fn, ok := x.Fn.(*ssa.Function); ok {
						for i, b := range x.Bindings {
							if b == cell && i < len(fn.FreeVars) {
								cellStores(fn.FreeVars[i], d+1)
							}
						}
					}
				}
			}
		}
		expand = func(at ssa.Instruction, v ssa.Value, d int) {
			v = strip(v)
			if d > 6 {
				leaves = append(leaves, site{at, v})
				return
			}
			switch x := v.(type) {
			case *ssa.Phi:
				for _, e := range x.Edges {
					expand(at, e, d+1)
				}
				return
			case *ssa.UnOp:
				if x.Op == token.MUL {
					switch cell := x.X.(type) {
					case *ssa.Alloc:
						cellStores(cell, d+1)
						return
					case *ssa.FreeVar:
						cellStores(cell, d+1)
						return
					}
				}
			}
			leaves = append(leaves, site{at, v})
		}
		expand(st, st.Val, 0)
		fresh, existing := 0, 0
		okAll := true
		for _, lf := range leaves {
			if isNilConst(lf.val) {
				continue
			}
			if c, idx := callResult(lf.val); c != nil && idx == 0 && calleeKey(&c.Call) == "(*pogreb.datalog).openSegment" {
				fresh++
				continue
			}
			existing++
			g := lf.at.Parent()
			if !controlledBy(g, lf.at, func(c *Cond) bool {
				if c.Op != token.ILLEGAL || c.Pos {
					return false
				}
				if !isFieldLoad(c.V, "pogreb.segmentMeta.Full") {
					return false
				}
				return accessPath(nil, c.V).Root == accessPath(nil, lf.val).Root
			}) {
				okAll = false
			}
		}
		if existing == 0 && fresh > 0 {
			// a fresh segment must come from nextWritableSegmentID (a free slot, new sequence id)
			r.ok(rule, funcKey(f)+":install-new", p.Pos(st.Pos()), "a newly opened segment becomes current", true)
			return
		}
		r.check(okAll, rule, funcKey(f)+":install-existing", p.Pos(st.Pos()), "an existing segment becomes current only when its meta.Full is false", "swapSegment can make a sealed segment the current segment: records are appended to a segment that compaction is moving / has removed")
	})
	r.universe(rule, n, 2)
}

// ruleC05Liveness: promoteRecord copies a record only if a slot matches hash, offset and segment; repoints to the copy.
func ruleC05Liveness(r *Run, p *Program, rule string) {
	f := p.Fn("(*pogreb.DB).promoteRecord")
	if !r.anchor(rule, "(*pogreb.DB).promoteRecord", f != nil) {
		return
	}
	r.fn(funcKey(f))
	var wr *ssa.Call
	var bw []*ssa.Call
	// the copy-and-repoint may sit in a visitor closure handed to a chain iterator: work in the function holding it
	for _, g := range append([]*ssa.Function{f}, f.AnonFuncs...) {
		found := false
		instrsOf(g, func(in ssa.Instruction) {
			if c, ok := in.(*ssa.Call); ok && calleeKey(&c.Call) == "(*pogreb.datalog).writeRecord" {
				found = true
			}
		})
		if found {
			f = g
			break
		}
	}
	instrsOf(f, func(in ssa.Instruction) {
		if c, ok := in.(*ssa.Call); ok {
			switch calleeKey(&c.Call) {
			case "(*pogreb.datalog).writeRecord":
				wr = c
			case "(*pogreb.bucketHandle).write":
				bw = append(bw, c)
			}
		}
	})
	if !r.anchor(rule, "writeRecord and bucket write in promoteRecord", wr != nil && len(bw) > 0) {
		return
	}
	for _, fld := range []string{"hash", "offset", "segmentID"} {
		fld := fld
		okv := controlledBy(f, wr, func(c *Cond) bool {
			eq, ok := c.holdsEq()
			if !ok || !eq {
				return false
			}
			return (isSlotFieldLoad(c.X, fld) && !isConst(c.Y)) || (isSlotFieldLoad(c.Y, fld) && !isConst(c.X))
		})
		r.check(okv, rule, funcKey(f)+":live-iff-"+fld, p.Pos(wr.Pos()),
			"a record is copied only when a slot's "+fld+" equals the record's",
			"compaction judges a record live without comparing the slot's "+fld+": a stale copy of an overwritten/deleted key (same hash, other location) is copied and the slot repointed to the old value")
	}
	// the record's own data and type are what is copied
	argOK := len(wr.Call.Args) == 3 && isFieldLoadOfParam(wr.Call.Args[1], "pogreb.record.data") && isFieldLoadOfParam(wr.Call.Args[2], "pogreb.record.rtype")
	r.check(argOK, rule, funcKey(f)+":copies-record", p.Pos(wr.Pos()), "the bytes and type written are the record's own", "promoteRecord does not copy the record's own data/type")
	// repoint: slot.segmentID / slot.offset <- writeRecord results #0/#1, then bucket write; all after a successful copy
	got := map[string]string{}
	var stores []ssa.Instruction
	instrsOf(f, func(in ssa.Instruction) {
		st, ok := in.(*ssa.Store)
		if !ok {
			return
		}
		fn := fieldName(st.Addr)
		if fn == "pogreb.slot.segmentID" || fn == "pogreb.slot.offset" {
			stores = append(stores, st)
			got[fn] = "other"
			if c, _ := valueComponent(st.Val); c == wr {
				switch locKind(st.Val, 0) {
				case "id":
					got[fn] = "0"
				case "off":
					got[fn] = "1"
				}
			}
		}
	})
	r.check(got["pogreb.slot.segmentID"] == "0" && got["pogreb.slot.offset"] == "1", rule, funcKey(f)+":repoint-to-copy", p.Pos(wr.Pos()),
		"the slot is repointed to exactly the (segment, offset) the copy was written at", fmt.Sprintf("the slot is not repointed to the location writeRecord returned (segmentID<-#%s, offset<-#%s)", got["pogreb.slot.segmentID"], got["pogreb.slot.offset"]))
	for _, b := range bw {
		okw := controlledBy(f, b, func(c *Cond) bool {
			e := errNilEdge(c)
			return e != nil && valueOfCall(e, wr)
		})
		r.check(okw, rule, funcKey(f)+":copy-before-repoint", p.Pos(b.Pos()), "the bucket is rewritten only after the copy was appended successfully", "the index slot can be repointed although the record copy failed or was not made")
		for _, st := range stores {
			r.check(mustPrecedeInstr(f, b, st), rule, funcKey(f)+":store-before-write", p.Pos(b.Pos()), "slot fields are updated before the bucket is written", "the bucket is written before the slot was updated")
		}
	}
	// every successful return after a copy passes the bucket write
	w := &Walk{Fn: f, Stop: func(in ssa.Instruction) bool {
		for _, b := range bw {
			if in == b {
				return true
			}
		}
		return false
	}, SkipEdge: func(b *ssa.BasicBlock, k int) bool {
		c := edgeCond(b, k)
		if c == nil {
			return false
		}
		e := errNonNilEdge(c)
		return e != nil && valueOfCall(e, wr)
	}}
	w.From(wr)
	lost := false
	for _, ret := range returnsOf(f) {
		if w.Visited[ret] {
			lost = true
			r.bad(rule, funcKey(f)+":repoint-after-copy", p.Pos(instrPos(ret)), "promoteRecord can return after copying a record without rewriting the bucket: the source is then removed while the index still points into it", w.PathTo(p, ret)...)
		}
	}
	if !lost {
		r.ok(rule, funcKey(f)+":repoint-after-copy", p.Pos(f.Pos()), "after a successful copy every return passes the bucket write", true)
	}
	// "reclaimed" verdict: true only on the chain-end path, false on the match path
	if top := topFunc(f); top != f {
		// the copy sits in a visitor closure, whose own results steer the walk; the verdict is what promoteRecord
		// returns: the negation of a flag the closure sets before it copies
		okv := false
		for _, ret := range returnsOf(top) {
			if isFailureReturn(top, ret) || len(ret.Results) != 2 {
				continue
			}
			o := strip(retOperand(ret, 0))
			if bv, isc := constBool(o); isc && !bv {
				continue
			}
			okv = false
			if un, ok := o.(*ssa.UnOp); ok && un.Op == token.NOT {
				if ld, ok := strip(un.X).(*ssa.UnOp); ok && ld.Op == token.MUL {
					if cell, ok := ld.X.(*ssa.Alloc); ok && cell.Referrers() != nil {
						for _, u := range *cell.Referrers() {
							mc, ok := u.(*ssa.MakeClosure)
							if !ok || mc.Fn != ssa.Value(f) {
								continue
							}
							for i, b := range mc.Bindings {
								if b != ssa.Value(cell) || i >= len(f.FreeVars) {
									continue
								}
								fv := f.FreeVars[i]
								okv = mustPrecede(f, wr, func(in ssa.Instruction) bool {
									st, ok := in.(*ssa.Store)
									if !ok || st.Addr != ssa.Value(fv) {
										return false
									}
									bv, isc := constBool(st.Val)
									return isc && bv
								})
							}
						}
					}
				}
			}
			if !okv {
				break
			}
		}
		r.check(okv, rule, funcKey(top)+":verdict-after-copy", p.Pos(top.Pos()), "a copied record is reported as not reclaimed (the visitor sets the 'found' flag before copying; promoteRecord returns its negation)", "a copied (live) record can be reported as reclaimed")
		return
	}
	for _, ret := range returnsOf(f) {
		if isFailureReturn(f, ret) || len(ret.Results) != 2 {
			continue
		}
		bv, isc := constBool(ret.Results[0])
		afterCopy := !mustNotFollow(f, wr, ret)
		if afterCopy {
			r.check(isc && !bv, rule, funcKey(f)+":verdict-after-copy", p.Pos(instrPos(ret)), "a copied record is reported as not reclaimed", "a copied (live) record is reported as reclaimed")
		}
	}
}

// mustNotFollow reports whether target is unreachable from after `from`.
func mustNotFollow(fn *ssa.Function, from, target ssa.Instruction) bool {
	w := &Walk{Fn: fn}
	w.From(from)
	return !w.Visited[target]
}

func isConst(v ssa.Value) bool { _, ok := strip(v).(*ssa.Const); return ok }

func isFieldLoadOfParam(v ssa.Value, qual string) bool {
	v = strip(v)
	switch x := v.(type) {
	case *ssa.Field:
		return fieldName(x) == qual
	case *ssa.UnOp:
		return x.Op == token.MUL && fieldName(x.X) == qual
	}
	return false
}

// ruleC03CompactComplete: the source is removed only after the iterator reported a clean end of segment.
func ruleC03CompactComplete(r *Run, p *Program, rule string) {
	f := p.Fn("(*pogreb.DB).compact")
	if !r.anchor(rule, "(*pogreb.DB).compact", f != nil) {
		return
	}
	r.fn(funcKey(f))
	var rm []*ssa.Call
	instrsOf(f, func(in ssa.Instruction) {
		if c, ok := in.(*ssa.Call); ok && calleeKey(&c.Call) == "(*pogreb.datalog).removeSegment" {
			rm = append(rm, c)
		}
	})
	if !r.anchor(rule, "removeSegment call in compact", len(rm) > 0) {
		return
	}
	for _, c := range rm {
		okv := controlledBy(f, c, func(cd *Cond) bool {
			eq, ok := cd.holdsEq()
			if !ok || !eq {
				return false
			}
			return globalLoad(cd.X) == "pogreb.ErrIterationDone" || globalLoad(cd.Y) == "pogreb.ErrIterationDone"
		})
		if !okv {
			// the loop may be driven from a step closure or helper: interprocedurally, with the edges
			// "err == ErrIterationDone" of the record loop removed, the removal must be unreachable
			okv = !reachableWithoutDone(p, f, c)
		}
		r.check(okv, rule, funcKey(f)+":remove-after-done", p.Pos(c.Pos()), "removeSegment(source) is reachable only after the per-record step returned ErrIterationDone", "the source segment can be removed before every record of it was processed (the copy loop can be left by another exit): live records are lost")
		// it removes the source, not something else
		src := false
		for _, a := range c.Call.Args {
			if pa, ok := strip(a).(*ssa.Parameter); ok && typeName(pa.Type()) == "*pogreb.segment" {
				src = true
			}
		}
		r.check(src, rule, funcKey(f)+":removes-source", p.Pos(c.Pos()), "the segment removed is the source segment", "compact removes a segment other than its source")
	}
	// the per-record step forwards the iterator's error: ErrIterationDone originates from segmentIterator.next only at a clean header EOF
	g := p.Fn("(*pogreb.segmentIterator).next")
	if r.anchor(rule, "(*pogreb.segmentIterator).next", g != nil) {
		r.fn(funcKey(g))
		n := 0
		for _, ret := range returnsOf(g) {
			if len(ret.Results) != 2 || globalLoad(retOperand(ret, 1)) != "pogreb.ErrIterationDone" {
				continue
			}
			n++
			okv := controlledBy(g, ret, func(cd *Cond) bool {
				eq, ok := cd.holdsEq()
				if !ok || !eq {
					return false
				}
				return globalLoad(cd.X) == "io.EOF" || globalLoad(cd.Y) == "io.EOF"
			})
			// and the EOF is that of the first (header) read: no other ReadFull precedes
			first := true
			var reads []*ssa.Call
			instrsOf(g, func(in ssa.Instruction) {
				if c, ok := in.(*ssa.Call); ok && calleeKey(&c.Call) == "io.ReadFull" {
					reads = append(reads, c)
				}
			})
			cnt := 0
			for _, rd := range reads {
				if !mustNotFollow(g, rd, ret) {
					cnt++
				}
			}
			first = cnt == 1
			r.check(okv && first, rule, funcKey(g)+":done-only-at-record-boundary", p.Pos(instrPos(ret)), "end-of-segment is reported only when the header read hits io.EOF (zero bytes: a record boundary)", "the segment iterator reports a clean end of segment in a situation other than EOF exactly at a record boundary (e.g. a short header or body read): a torn tail is not truncated by recovery / compaction removes a segment with unread bytes")
		}
		r.universe(rule+":done-returns", n, 1)
	}
}

// reachableWithoutDone: can `target` (in root) be reached from root's entry when every edge on which a value equals
// ErrIterationDone is removed in the frames of the record loop (functions that, with their closures, call
// segmentIterator.next directly)? Path facts correlate a step's (more, err) results.
func reachableWithoutDone(p *Program, root *ssa.Function, target ssa.Instruction) bool {
	loopFrame := map[*ssa.Function]bool{}
	top := func(f *ssa.Function) *ssa.Function {
		for f.Parent() != nil {
			f = f.Parent()
		}
		return f
	}
	for _, g := range p.ModuleFuncs("") {
		instrsOf(g, func(in ssa.Instruction) {
			if c, ok := in.(*ssa.Call); ok && calleeKey(&c.Call) == "(*pogreb.segmentIterator).next" {
				loopFrame[top(g)] = true
			}
		})
	}
	w := &IPWalk{P: p, SkipEdge: func(ctx *Ctx, b *ssa.BasicBlock, k int) bool {
		if !loopFrame[top(ctx.Fn)] {
			return false
		}
		cd := edgeCond(b, k)
		if cd == nil {
			return false
		}
		eq, ok := cd.holdsEq()
		if !ok || !eq {
			return false
		}
		return globalLoad(cd.X) == "pogreb.ErrIterationDone" || globalLoad(cd.Y) == "pogreb.ErrIterationDone"
	}}
	rc := &Ctx{Fn: root}
	w.Run(rc, nil)
	return w.Reached[Node{rc, target}]
}

// ruleC03OlderFirst: a segment with delete records is compacted only together with every older segment, oldest first.
func ruleC03OlderFirst(r *Run, p *Program, rule string) {
	f := p.Fn("(*pogreb.DB).pickForCompaction")
	if !r.anchor(rule, "(*pogreb.DB).pickForCompaction", f != nil) {
		return
	}
	r.fn(funcKey(f))
	// the ordering source: the result of segmentsBySequenceID(), called here or passed in by every caller
	var order ssa.Value
	instrsOf(f, func(in ssa.Instruction) {
		if c, ok := in.(*ssa.Call); ok && calleeKey(&c.Call) == "(*pogreb.datalog).segmentsBySequenceID" {
			order = c
		}
	})
	if order == nil {
		for i, pa := range f.Params {
			sl, ok := pa.Type().Underlying().(*types.Slice)
			if !ok || typeName(derefType(sl.Elem())) != "pogreb.segment" {
				continue
			}
			okAll, n := true, 0
			for _, c := range staticCallersOf(p, f) {
				instrsOf(c, func(in ssa.Instruction) {
					ci, ok := in.(ssa.CallInstruction)
					if !ok || ci.Common().StaticCallee() != f || i >= len(ci.Common().Args) {
						return
					}
					n++
					from := false
					for _, s := range sources(ci.Common().Args[i]) {
						if cc, ok := s.(*ssa.Call); ok && calleeKey(&cc.Call) == "(*pogreb.datalog).segmentsBySequenceID" {
							from = true
						}
					}
					if !from {
						okAll = false
					}
				})
			}
			if okAll && n > 0 {
				order = pa
			}
		}
	}
	if !r.anchor(rule, "segmentsBySequenceID() as the ordering pickForCompaction works on", order != nil) {
		return
	}
	// branch on DeleteRecords > 0
	n := 0
	for _, ret := range returnsOf(f) {
		underDel := controlledBy(f, ret, func(c *Cond) bool {
			if c.Op != token.GTR && c.Op != token.NEQ && c.Op != token.LEQ && c.Op != token.EQL {
				return false
			}
			if !isFieldLoad(c.X, "pogreb.segmentMeta.DeleteRecords") {
				return false
			}
			k, ok := constInt(c.Y)
			if !ok || k != 0 {
				return false
			}
			switch c.Op {
			case token.GTR, token.NEQ:
				return c.Pos
			default:
				return !c.Pos
			}
		})
		if !underDel {
			continue
		}
		n++
		// accepted shape: append(order[:i+1], picked...) : first operand is a prefix slice (no low bound) of the ordering
		okShape := false
		desc := "unrecognised construction"
		if c, ok := strip(ret.Results[0]).(*ssa.Call); ok {
			if b, ok := c.Call.Value.(*ssa.Builtin); ok && b.Name() == "append" && len(c.Call.Args) == 2 {
				if sl, ok := strip(c.Call.Args[0]).(*ssa.Slice); ok && sl.Low == nil && strip(sl.X) == order && sl.High != nil {
					// high bound must be loop index + 1
					if bo, ok := sl.High.(*ssa.BinOp); ok && bo.Op == token.ADD {
						if k, ok := constInt(bo.Y); ok && k == 1 {
							okShape = true
							desc = "append(segments[:i+1], picked...)"
						}
					}
				}
			}
		}
		r.check(okShape, rule, funcKey(f)+":delete-branch", p.Pos(instrPos(ret)),
			"when a picked segment holds delete records the result is the whole prefix of the oldest-first ordering up to it ("+desc+"), unconditionally",
			"on the branch for a segment holding delete records the result is not recognisably 'every older segment, oldest first, then the newer picks' (expected the prefix segments[:i+1] of segmentsBySequenceID()): a delete marker can be dropped while an older put of the key survives, and the key comes back after recovery [rule armed on shape; an equivalent construction needs the rule's table extended]")
	}
	r.universe(rule, n, 1)
	// the comparator orders by sequenceID ascending
	{
		// the "less" function used for the ordering (a closure or a Less method): identified by comparing two sequenceID loads
		var cmps []*ssa.Function
		for _, g := range p.ModuleFuncs("") {
			if g.Pkg != p.MainS {
				continue
			}
			for _, ret := range returnsOf(g) {
				if len(ret.Results) != 1 {
					continue
				}
				if bo, ok := strip(ret.Results[0]).(*ssa.BinOp); ok && isFieldLoad(bo.X, "pogreb.segment.sequenceID") && isFieldLoad(bo.Y, "pogreb.segment.sequenceID") {
					cmps = append(cmps, g)
				}
			}
		}
		if r.anchor(rule, "comparison of two segment sequence ids (the ordering's less function)", len(cmps) > 0) {
			for _, cmp := range cmps {
				okc := false
				for _, ret := range returnsOf(cmp) {
					if bo, ok := strip(ret.Results[0]).(*ssa.BinOp); ok && bo.Op == token.LSS {
						// X indexes with the first index parameter, Y with the second
						ix, iy := idxParam(bo.X), idxParam(bo.Y)
						okc = ix >= 0 && iy == ix+1
					}
				}
				r.check(okc, rule, "segmentsBySequenceID:ascending", p.Pos(cmp.Pos()), "segments are ordered by sequenceID ascending (oldest first)", "the segment ordering does not sort by ascending sequenceID: recovery replays / compaction processes segments in the wrong order")
			}
		}
	}
	// Compact iterates the picked slice front to back: a range loop (index from 0 upwards) over the result
	if g := p.Fn("(*pogreb.DB).Compact"); r.anchor(rule, "(*pogreb.DB).Compact", g != nil) {
		okr := false
		instrsOf(g, func(in ssa.Instruction) {
			c, ok := in.(*ssa.Call)
			if !ok || calleeKey(&c.Call) != "(*pogreb.DB).compact" || len(c.Call.Args) < 2 {
				return
			}
			// arg = load of IndexAddr(result of pickForCompaction, phi index) with phi starting at -1/0 and incremented by 1
			if ld, ok := strip(c.Call.Args[1]).(*ssa.UnOp); ok {
				if ia, ok := ld.X.(*ssa.IndexAddr); ok {
					if ph, ok := ia.Index.(*ssa.BinOp); ok && ph.Op == token.ADD {
						if k, ok := constInt(ph.Y); ok && k == 1 {
							okr = true
						}
					} else if _, ok := ia.Index.(*ssa.Phi); ok {
						okr = true
					}
				}
			}
		})
		r.check(okr, rule, "(*pogreb.DB).Compact:front-to-back", p.Pos(g.Pos()), "Compact processes the picked segments in slice order with an ascending index", "Compact does not process the picked segments front to back (oldest first)")
		// and the picked slice is only read between the pick and the loop: nothing can reorder it
		instrsOf(g, func(in ssa.Instruction) {
			pc, ok := in.(*ssa.Call)
			if !ok || calleeKey(&pc.Call) != "(*pogreb.DB).pickForCompaction" || pc.Referrers() == nil {
				return
			}
			var esc []string
			var visit func(v ssa.Value, d int)
			visit = func(v ssa.Value, d int) {
				if d > 4 || v.Referrers() == nil {
					return
				}
				for _, u := range *v.Referrers() {
					switch x := u.(type) {
					case *ssa.DebugRef:
					case *ssa.IndexAddr:
						for _, w := range *x.Referrers() {
							if st, ok := w.(*ssa.Store); ok && st.Addr == ssa.Value(x) {
								esc = append(esc, p.Pos(st.Pos())+": element store")
							}
						}
					case *ssa.Phi:
						visit(x, d+1)
					case *ssa.Range, *ssa.Slice:
						if sv, ok := u.(ssa.Value); ok {
							visit(sv, d+1)
						}
					case *ssa.Call:
						if b, ok := x.Call.Value.(*ssa.Builtin); ok && (b.Name() == "len" || b.Name() == "cap") {
							continue
						}
						esc = append(esc, p.Pos(x.Pos())+": passed to "+callString(&x.Call))
					case *ssa.MakeInterface:
						if x.Referrers() != nil {
							for _, w := range *x.Referrers() {
								if c, ok := w.(*ssa.Call); ok {
									esc = append(esc, p.Pos(c.Pos())+": passed to "+callString(&c.Call))
								}
							}
						}
					case *ssa.Store:
						// a local variable cell (the variable is captured by a closure): follow its loads
						if al, ok := x.Addr.(*ssa.Alloc); ok && x.Val == v && al.Referrers() != nil {
							for _, w := range *al.Referrers() {
								switch y := w.(type) {
								case *ssa.UnOp:
									visit(y, d+1)
								case *ssa.Store:
									if y != x {
										esc = append(esc, p.Pos(y.Pos())+": variable reassigned")
									}
								}
							}
							continue
						}
						esc = append(esc, p.Pos(x.Pos())+": stored")
					default:
						if _, isCmp := u.(*ssa.BinOp); isCmp {
							continue
						}
						esc = append(esc, p.Pos(u.Pos())+": "+fmt.Sprintf("%T", u))
					}
				}
			}
			visit(pc, 0)
			sort.Strings(esc)
			r.check(len(esc) == 0, rule, "(*pogreb.DB).Compact:order-kept", p.Pos(pc.Pos()),
				"between pickForCompaction and the loop the picked slice is only indexed and measured: its oldest-first order is what the loop sees",
				"the picked slice is handed to code that can reorder or rewrite it before the loop ("+strings.Join(esc, "; ")+"): a segment whose delete records are dropped may then be compacted (and unlinked) before an older segment that still holds the put they shadow; a crash or a Backup in between resurrects the deleted key")
		})
	}
	// every pick passed the delete-records test: a segment is added to the picked set only where the test
	// "holds delete records" was evaluated for it and was false (the true branch returns the whole prefix instead)
	{
		isNoDel := func(c *Cond) bool {
			if !isFieldLoad(c.X, "pogreb.segmentMeta.DeleteRecords") {
				return false
			}
			k, ok := constInt(c.Y)
			if !ok || k != 0 {
				return false
			}
			switch c.Op {
			case token.GTR, token.NEQ:
				return !c.Pos
			case token.LEQ, token.EQL:
				return c.Pos
			}
			return false
		}
		np := 0
		instrsOf(f, func(in ssa.Instruction) {
			c, ok := in.(*ssa.Call)
			if !ok {
				return
			}
			b, ok := c.Call.Value.(*ssa.Builtin)
			if !ok || b.Name() != "append" || !inCycle(c.Block()) {
				return
			}
			if et, ok := c.Type().Underlying().(*types.Slice); !ok || typeName(derefType(et.Elem())) != "pogreb.segment" {
				return
			}
			// the prefix construction on the delete branch is checked above
			if sl, ok := strip(c.Call.Args[0]).(*ssa.Slice); ok && strip(sl.X) == order {
				return
			}
			np++
			r.check(controlledBy(f, c, isNoDel), rule, funcKey(f)+":pick-after-delete-test", p.Pos(c.Pos()),
				"a segment is added to the picked set only after the test 'holds delete records' was evaluated false for it",
				"a segment can be picked without passing the test 'holds delete records -> pick every older segment too': its delete records are dropped while an older, unpicked segment still holds the put records they shadow; recovery and Backup (which replay the log) resurrect the deleted keys")
		})
		r.universe(rule+":picks", np, 1)
	}
}

func idxParam(v ssa.Value) int {
	// v = load(FieldAddr(load(IndexAddr(segments, param)), sequenceID))
	ap := v
	for d := 0; d < 10; d++ {
		switch x := strip(ap).(type) {
		case *ssa.UnOp:
			ap = x.X
		case *ssa.FieldAddr:
			ap = x.X
		case *ssa.IndexAddr:
			if pa, ok := x.Index.(*ssa.Parameter); ok {
				return paramIndex(pa)
			}
			return -1
		default:
			return -1
		}
	}
	return -1
}

// ruleC03SequenceMonotonic: datalog.maxSequenceID only grows: ++, an assignment guarded by "new > max",
// or an assignment of max(current, new).
func ruleC03SequenceMonotonic(r *Run, p *Program, rule string) {
	const fld = "pogreb.datalog.maxSequenceID"
	stores := storesToField(p, fld)
	r.universe(rule, len(stores), 2)
	incs := map[*ssa.Function]*ssa.Store{}
	for _, st := range stores {
		f := st.Parent()
		r.fn(funcKey(f))
		okv := false
		desc := ""
		if bo, ok := st.Val.(*ssa.BinOp); ok && bo.Op == token.ADD && isFieldLoad(bo.X, fld) {
			if k, ok := constInt(bo.Y); ok && k == 1 {
				okv, desc = true, "increment"
				incs[f] = st
			}
		}
		if !okv {
			sameVal := func(a ssa.Value) bool { return valString(a) == valString(st.Val) }
			isMax := func(a ssa.Value) bool { return isFieldLoad(a, fld) }
			okv = controlledBy(f, st, func(c *Cond) bool { return impliesCmp(c, sameVal, isMax, false) })
			desc = "assignment guarded by 'value > maxSequenceID'"
		}
		if !okv {
			// max(current, x): the builtin or a two-parameter function proved to return the larger argument
			if c, ok := strip(st.Val).(*ssa.Call); ok {
				hasCur := false
				for _, a := range c.Call.Args {
					if isFieldLoad(a, fld) {
						hasCur = true
					}
				}
				if b, ok := c.Call.Value.(*ssa.Builtin); ok && b.Name() == "max" && hasCur {
					okv, desc = true, "max(maxSequenceID, value)"
				} else if g := c.Call.StaticCallee(); g != nil && hasCur && isMaxFunc(g) {
					okv, desc = true, funcKey(g)+"(maxSequenceID, value), which returns the larger argument"
				}
			}
		}
		r.check(okv, rule, funcKey(f)+":store", p.Pos(st.Pos()), "maxSequenceID only grows ("+desc+")", "datalog.maxSequenceID can be assigned a value that is not larger than the current maximum: a new segment then gets a sequence id below an existing segment's, and recovery replays the newer records first (old values reappear)")
	}
	// new segments take maxSequenceID+1: the function that increments the counter hands out the incremented value,
	// and hands out only ids whose table entry is nil
	if !r.anchor(rule, "the function incrementing datalog.maxSequenceID (nextWritableSegmentID)", len(incs) > 0) {
		return
	}
	for f, inc := range incs {
		okv := false
		instrsOf(f, func(in ssa.Instruction) {
			if ld, ok := in.(*ssa.UnOp); ok && ld.Op == token.MUL && fieldName(ld.X) == fld {
				if mustPrecedeInstr(f, ld, inc) && flowsToReturn(ld) {
					okv = true
				}
			}
		})
		for _, ret := range returnsOf(f) {
			n := len(ret.Results)
			if n >= 2 && isNilConst(retOperand(ret, n-1)) {
				free := controlledBy(f, ret, func(c *Cond) bool {
					eq, ok := c.holdsEq()
					return ok && eq && (isNilConst(c.X) || isNilConst(c.Y))
				})
				r.check(free, rule, "nextWritableSegmentID:free-slot", p.Pos(instrPos(ret)), "a segment id is handed out only when its table entry is nil", "nextWritableSegmentID can hand out the id of an existing segment")
			}
		}
		r.check(okv, rule, "nextWritableSegmentID:fresh-sequence", p.Pos(f.Pos()), "a new segment gets maxSequenceID+1 (the value loaded after the increment is what "+funcKey(f)+" returns)", "a new segment does not get a sequence id above every existing one")
	}
}

// impliesCmp reports whether the edge condition c implies A >= B (A > B when strict), where isA and isB identify the operands.
func impliesCmp(c *Cond, isA, isB func(ssa.Value) bool, strict bool) bool {
	if c.X == nil || c.Y == nil {
		return false
	}
	op := c.Op
	if !c.Pos {
		switch op {
		case token.LSS:
			op = token.GEQ
		case token.LEQ:
			op = token.GTR
		case token.GTR:
			op = token.LEQ
		case token.GEQ:
			op = token.LSS
		default:
			return false
		}
	}
	switch {
	case isA(c.X) && isB(c.Y):
		return op == token.GTR || (!strict && op == token.GEQ)
	case isA(c.Y) && isB(c.X):
		return op == token.LSS || (!strict && op == token.LEQ)
	}
	return false
}

// isMaxFunc: g has two integer parameters and every value it returns is one of them, returned only where it is >= the other.
func isMaxFunc(g *ssa.Function) bool {
	if len(g.Params) != 2 || g.Signature.Results().Len() != 1 || len(g.Blocks) == 0 {
		return false
	}
	other := func(v ssa.Value) ssa.Value {
		switch strip(v) {
		case ssa.Value(g.Params[0]):
			return g.Params[1]
		case ssa.Value(g.Params[1]):
			return g.Params[0]
		}
		return nil
	}
	edgeOK := func(v ssa.Value, c *Cond) bool {
		o := other(v)
		return c != nil && o != nil && impliesCmp(c, func(a ssa.Value) bool { return strip(a) == strip(v) }, func(a ssa.Value) bool { return strip(a) == o }, false)
	}
	rets := returnsOf(g)
	if len(rets) == 0 {
		return false
	}
	for _, ret := range rets {
		v := strip(retOperand(ret, 0))
		if ph, ok := v.(*ssa.Phi); ok {
			for i, e := range ph.Edges {
				if other(e) == nil {
					return false
				}
				pred := ph.Block().Preds[i]
				good := false
				for k, s := range pred.Succs {
					if s == ph.Block() && edgeOK(e, edgeCond(pred, k)) {
						good = true
					}
				}
				if !good && len(pred.Instrs) > 0 {
					good = controlledBy(g, pred.Instrs[0], func(c *Cond) bool { return edgeOK(e, c) })
				}
				if !good {
					return false
				}
			}
			continue
		}
		if other(v) == nil {
			return false
		}
		if !controlledBy(g, ret, func(c *Cond) bool { return edgeOK(v, c) }) {
			return false
		}
	}
	return true
}

// flowsToReturn: v reaches a Return of its function unchanged - directly, through phis and type changes,
// or stored into a field of a local struct that is returned.
func flowsToReturn(v ssa.Value) bool {
	seen := map[ssa.Value]bool{}
	var rec func(v ssa.Value) bool
	rec = func(v ssa.Value) bool {
		if seen[v] {
			return false
		}
		seen[v] = true
		refs := v.Referrers()
		if refs == nil {
			return false
		}
		for _, u := range *refs {
			switch x := u.(type) {
			case *ssa.Return:
				return true
			case *ssa.Phi:
				if rec(x) {
					return true
				}
			case *ssa.ChangeType:
				if rec(x) {
					return true
				}
			case *ssa.Store:
				if x.Val != v {
					continue
				}
				base := x.Addr
				for {
					if fa, ok := base.(*ssa.FieldAddr); ok {
						base = fa.X
						continue
					}
					break
				}
				if al, ok := base.(*ssa.Alloc); ok {
					if al.Referrers() != nil {
						for _, w := range *al.Referrers() {
							if ld, ok := w.(*ssa.UnOp); ok && ld.Op == token.MUL && rec(ld) {
								return true
							}
							if _, ok := w.(*ssa.Return); ok { // pointer to the local struct returned
								return true
							}
						}
					}
				}
			}
		}
		return false
	}
	return rec(v)
}

// ---------- C11 ----------

func ruleC11Cursor(r *Run, p *Program, rule string) {
	f := p.Fn("(*pogreb.ItemIterator).Next")
	if !r.anchor(rule, "(*pogreb.ItemIterator).Next", f != nil) {
		return
	}
	r.fn(funcKey(f))
	// stores to nextBucketIdx anywhere
	stores := storesToField(p, "pogreb.ItemIterator.nextBucketIdx")
	r.universe(rule, len(stores), 1)
	for _, st := range stores {
		g := st.Parent()
		inc := false
		if bo, ok := st.Val.(*ssa.BinOp); ok && bo.Op == token.ADD && isFieldLoad(bo.X, "pogreb.ItemIterator.nextBucketIdx") {
			if k, ok := constInt(bo.Y); ok && k == 1 {
				inc = true
			}
		}
		afterFetch := g == f && controlledBy(g, st, func(c *Cond) bool {
			e := errNilEdge(c)
			if e == nil {
				return false
			}
			call, _ := callResult(e)
			return call != nil && calleeKey(&call.Call) == "(*pogreb.ItemIterator).fetchItems"
		})
		r.check(inc && afterFetch, rule, funcKey(g)+":advance", p.Pos(st.Pos()), "the scan position advances by exactly one bucket, only after that bucket's chain was fetched successfully", "ItemIterator.nextBucketIdx is changed other than by +1 after a successful fetch of that bucket: buckets are skipped or visited twice")
	}
	// the fetch is for the current position
	instrsOf(f, func(in ssa.Instruction) {
		c, ok := in.(*ssa.Call)
		if !ok || calleeKey(&c.Call) != "(*pogreb.ItemIterator).fetchItems" {
			return
		}
		r.check(len(c.Call.Args) == 2 && isFieldLoad(c.Call.Args[1], "pogreb.ItemIterator.nextBucketIdx"), rule, funcKey(f)+":fetch-current", p.Pos(c.Pos()), "the bucket fetched is the one at the scan position", "the bucket fetched is not the one at the scan position")
	})
	// loop bound: nextBucketIdx < index.numBuckets, re-read inside the loop
	found := false
	for _, b := range f.Blocks {
		for k := range b.Succs {
			c := edgeCond(b, k)
			if c == nil || c.Op != token.LSS || !c.Pos {
				continue
			}
			if isFieldLoad(c.X, "pogreb.ItemIterator.nextBucketIdx") && isFieldLoad(c.Y, "pogreb.index.numBuckets") {
				if inCycle(b) {
					found = true
				}
			}
		}
	}
	r.check(found, rule, funcKey(f)+":live-bound", p.Pos(f.Pos()), "the refill loop compares the scan position with index.numBuckets re-read on every iteration", "the scan is not bounded by the live bucket count (index.numBuckets read afresh in the loop): keys moved by a split into buckets appended after the scan started are never returned")
	// ErrIterationDone only when the position reached the live bound: with the "position < numBuckets is false" edges and the
	// "queue is not empty" edges removed, no ErrIterationDone return may remain reachable (any other way out of the refill
	// loop ends the scan early)
	wd := &Walk{Fn: f, SkipEdge: func(b *ssa.BasicBlock, k int) bool {
		c := edgeCond(b, k)
		if c == nil {
			return false
		}
		if c.Op == token.LSS && !c.Pos && isFieldLoad(c.X, "pogreb.ItemIterator.nextBucketIdx") && isFieldLoad(c.Y, "pogreb.index.numBuckets") {
			return true
		}
		if isQueueLen(c.X) {
			// queue non-empty: len == 0 is false, len > 0 is true, len != 0 is true
			if k0, ok := constInt(c.Y); ok && k0 == 0 {
				switch c.Op {
				case token.EQL:
					return !c.Pos
				case token.GTR, token.NEQ:
					return c.Pos
				}
			}
		}
		return false
	}}
	wd.From()
	for _, ret := range returnsOf(f) {
		if len(ret.Results) != 3 || globalLoad(retOperand(ret, 2)) != "pogreb.ErrIterationDone" {
			continue
		}
		r.check(!wd.Visited[ret], rule, funcKey(f)+":done", p.Pos(instrPos(ret)), "ErrIterationDone is returned only when the scan position reached the live bucket count (queue empty)", "the scan can end (ErrIterationDone) while buckets remain to be visited: there is a way out of the refill loop other than 'position reached index.numBuckets' or 'an item is available'", wd.PathTo(p, ret)...)
	}
	// what is returned comes out of the queue
	g := p.Fn("(*pogreb.ItemIterator).fetchItems")
	if r.anchor(rule, "(*pogreb.ItemIterator).fetchItems", g != nil) {
		r.fn(funcKey(g))
		want := map[string]int{"pogreb.item.key": 0, "pogreb.item.value": 1}
		seen := map[string]bool{}
		// in fetchItems itself or in the visitor closure it hands to a chain iterator helper
		deepInstrsOf := func(fn *ssa.Function, visit func(in ssa.Instruction)) {
			var rec func(h *ssa.Function)
			rec = func(h *ssa.Function) {
				instrsOf(h, visit)
				for _, a := range h.AnonFuncs {
					rec(a)
				}
			}
			rec(fn)
		}
		deepInstrsOf(g, func(in ssa.Instruction) {
			st, ok := in.(*ssa.Store)
			if !ok {
				return
			}
			fn := fieldName(st.Addr)
			idx, isItem := want[fn]
			if !isItem {
				return
			}
			seen[fn] = true
			okv := derivesFrom(st.Val, func(x ssa.Value) bool {
				c, i := callResult(x)
				if c != nil && calleeKey(&c.Call) == "pogreb.cloneBytes" && len(c.Call.Args) == 1 {
					return derivesFrom(c.Call.Args[0], func(y ssa.Value) bool {
						c2, j := callResult(y)
						return c2 != nil && calleeKey(&c2.Call) == "(*pogreb.datalog).readKeyValue" && j == idx
					})
				}
				return c != nil && calleeKey(&c.Call) == "(*pogreb.datalog).readKeyValue" && i == idx
			})
			r.check(okv, rule, funcKey(g)+":"+fn, p.Pos(st.Pos()), fn+" is result #"+fmt.Sprint(idx)+" of readKeyValue for the visited slot", fn+" queued by the scan is not the "+strings.TrimPrefix(fn, "pogreb.item.")+" read from the log for the visited slot")
		})
		r.anchor(rule, "stores to item.key and item.value in fetchItems", seen["pogreb.item.key"] && seen["pogreb.item.value"])
	}
}

func isQueueLen(v ssa.Value) bool {
	c, ok := strip(v).(*ssa.Call)
	if !ok {
		return false
	}
	b, ok := c.Call.Value.(*ssa.Builtin)
	return ok && b.Name() == "len" && isFieldLoad(c.Call.Args[0], "pogreb.ItemIterator.queue")
}

// ruleC11Drain: a whole chain is drained inside one shared section, with the iterator lock held.
func ruleC11Drain(r *Run, p *Program, rule string) {
	f := p.Fn("(*pogreb.ItemIterator).Next")
	if !r.anchor(rule, "(*pogreb.ItemIterator).Next", f != nil) {
		return
	}
	w, _ := lockWalk(p, f, "")
	n := 0
	bad := false
	for nd := range w.Reached {
		inFetch := false
		for c := nd.Ctx; c != nil; c = c.Parent {
			if funcKey(c.Fn) == "(*pogreb.ItemIterator).fetchItems" {
				inFetch = true
			}
		}
		if !inFetch {
			continue
		}
		n++
		held := mustHold(w, nd)
		if !holdsRead(held) || !held["iter"] {
			bad = true
			r.bad(rule, "(*pogreb.ItemIterator).fetchItems", p.Pos(instrPos(nd.In)), "part of the chain drain runs without DB.mu / ItemIterator.mu held: {"+lockSetString(held)+"}")
			break
		}
		if l, _ := lockOp(nodeCall(nd)); l == "mu" {
			if _, isReg := nd.In.(*ssa.Defer); !isReg {
				bad = true
				r.bad(rule, "(*pogreb.ItemIterator).fetchItems", p.Pos(instrPos(nd.In)), "DB.mu is released/re-acquired inside the drain of one bucket chain: slots can shift between two reads of the chain")
			}
		}
	}
	if !bad {
		r.ok(rule, "(*pogreb.ItemIterator).fetchItems", p.Pos(f.Pos()), fmt.Sprintf("all %d instructions of the chain drain run inside one section of DB.mu (shared) with ItemIterator.mu held", n), true)
	}
	r.universe(rule, n, 20)
}

// ---------- C12 ----------

func ruleC12(r *Run, p *Program, rule string) {
	f := p.Fn("(*pogreb.DB).Backup")
	if !r.anchor(rule, "(*pogreb.DB).Backup", f != nil) {
		return
	}
	r.fn(funcKey(f))
	w, _ := lockWalk(p, f, "")
	nev := 0
	for nd := range w.Reached {
		held := mustHold(w, nd)
		// every fs event, guarded access and lock acquisition of DB.mu happens with maintenanceMu held
		isEv := fsEventOf(nd) != nil || guardedAccessOf(nd) != nil
		if l, op := lockOp(nodeCall(nd)); l == "mu" && (op == "RLock" || op == "Lock") {
			if _, isReg := nd.In.(*ssa.Defer); !isReg {
				isEv = true
			}
		}
		if !isEv {
			continue
		}
		nev++
		if !held["maint"] {
			r.bad(rule+".maintenance-held", funcKey(nd.Ctx.Fn), p.Pos(instrPos(nd.In)), "Backup touches database state / the file system without maintenanceMu held: a running compaction can remove or rewrite segments between the capture and the copy", w.PathTo(nd)...)
			break
		}
	}
	r.universe(rule+".maintenance-held", nev, 6)
	if nev >= 6 {
		r.ok(rule+".maintenance-held", funcKey(f), p.Pos(f.Pos()), fmt.Sprintf("all %d file-system calls, guarded accesses and DB.mu acquisitions of Backup happen with maintenanceMu held", nev), true)
	}
	// capture: map updates (captured sizes) happen under DB.mu, in Backup or a helper extracted from it
	ncap := 0
	for nd := range w.Reached {
		mu, ok := nd.In.(*ssa.MapUpdate)
		if !ok {
			continue
		}
		ncap++
		g := nd.Ctx.Fn
		held := mustHold(w, nd)
		r.check(holdsRead(held), rule+".capture-locked", funcKey(f)+":size-capture", p.Pos(mu.Pos()), "the copy bounds are captured with DB.mu held", "the size of an active segment is captured without DB.mu held: the bound may include a half-written record or miss an acknowledged one")
		isSize := isFieldLoad(mu.Value, "pogreb.file.size")
		notFull := controlledBy(g, mu, func(c *Cond) bool {
			return c.Op == token.ILLEGAL && !c.Pos && isFieldLoad(c.V, "pogreb.segmentMeta.Full")
		})
		r.check(isSize && notFull, rule+".capture-locked", funcKey(f)+":captures-size-of-active", p.Pos(mu.Pos()), "what is captured is file.size of segments that are not full", "the captured copy bound is not the size of the segments that are still being appended to")
	}
	r.universe(rule+".capture-locked", ncap, 1)
	// the backup covers every open segment: the list is built from segmentsBySequenceID() and no element is skipped
	{
		var work ssa.Instruction
		fromOrder := false
		for _, g := range deepFuncs(p, f) {
			instrsOf(g, func(in ssa.Instruction) {
				switch x := in.(type) {
				case *ssa.Call:
					if b, ok := x.Call.Value.(*ssa.Builtin); ok && b.Name() == "append" && strings.Contains(x.Type().String(), "segment") && inCycle(x.Block()) && funcKey(g) != "(*pogreb.datalog).segmentsBySequenceID" {
						work = x
					}
					if calleeKey(&x.Call) == "(*pogreb.datalog).segmentsBySequenceID" && funcKey(g) != "(*pogreb.datalog).segmentsBySequenceID" {
						fromOrder = true
					}
				case *ssa.Store:
					if ia, ok := x.Addr.(*ssa.IndexAddr); ok && strings.Contains(ia.X.Type().String(), "[]*github.com/akrylysov/pogreb.segment") && inCycle(x.Block()) && funcKey(g) != "(*pogreb.datalog).segmentsBySequenceID" {
						if _, isNil := x.Val.(*ssa.Const); !isNil {
							work = x
						}
					}
				}
			})
		}
		// the list may also be the result of segmentsBySequenceID() itself (a fresh slice): then the loops range over it directly
		direct := false
		if work == nil {
			for _, g := range deepFuncs(p, f) {
				if funcKey(g) == "(*pogreb.datalog).segmentsBySequenceID" {
					continue
				}
				instrsOf(g, func(in ssa.Instruction) {
					ia, ok := in.(*ssa.IndexAddr)
					if !ok || !inCycle(ia.Block()) {
						return
					}
					for _, s := range sources(ia.X) {
						if c, ok := s.(*ssa.Call); ok && calleeKey(&c.Call) == "(*pogreb.datalog).segmentsBySequenceID" {
							direct = true
						}
					}
				})
			}
		}
		if direct {
			r.ok(rule+".all-segments", funcKey(f)+":source", p.Pos(f.Pos()), "the loops range directly over the slice segmentsBySequenceID() returned (every non-nil entry of the table)", true)
			r.ok(rule+".all-segments", funcKey(f)+":no-skip", p.Pos(f.Pos()), "no intermediate list is built: nothing can be left out of it", true)
		} else if r.anchor(rule+".all-segments", "capture loop building the list of segments to copy (in Backup or a helper)", work != nil) {
			r.check(fromOrder, rule+".all-segments", funcKey(f)+":source", p.Pos(work.Pos()), "the segments to copy are taken from segmentsBySequenceID() (every non-nil entry of the table)", "Backup does not enumerate the segments through segmentsBySequenceID(): after compaction freed a lower id the table has holes and a hand-written scan can miss the segments behind them")
			checkSkipsOnly(r, p, rule+".all-segments", funcKey(f)+":no-skip", work.Parent(), work, func(c *Cond) bool { return false },
				"every enumerated segment is added to the list of segments to copy", "Backup's capture loop can skip or stop before a segment: the backup misses part of the log")
		}
	}
	// bounded copy (the copy may sit in a helper: parameters are resolved to the caller's arguments)
	var copyN, copyAll *Node
	var lookup *ssa.Lookup
	for nd := range w.Reached {
		nd := nd
		switch x := nd.In.(type) {
		case *ssa.Call:
			switch calleeKey(&x.Call) {
			case "io.CopyN":
				copyN = &nd
			case "io.Copy":
				copyAll = &nd
			}
		case *ssa.Lookup:
			if x.CommaOk {
				lookup = x
			}
		}
	}
	if r.anchor(rule+".bounded-copy", "io.Copy, io.CopyN and the captured-size lookup under Backup", copyN != nil && copyAll != nil && lookup != nil) {
		isOK := func(ctx *Ctx, pos bool) func(c *Cond) bool {
			return func(c *Cond) bool {
				if c.Op != token.ILLEGAL || c.Pos != pos {
					return false
				}
				_, v := resolveParam(ctx, c.V)
				ex, ok := strip(v).(*ssa.Extract)
				return ok && ex.Tuple == ssa.Value(lookup) && ex.Index == 1
			}
		}
		// the condition may be tested in the helper (on a parameter) or at the call site of the helper
		ctl := func(nd *Node, pos bool) bool {
			var at ssa.Instruction = nd.In
			for c := nd.Ctx; c != nil; c = c.Parent {
				if controlledBy(c.Fn, at, isOK(c, pos)) {
					return true
				}
				at = c.Site
				if at == nil {
					break
				}
			}
			return false
		}
		r.check(ctl(copyAll, false), rule+".bounded-copy", funcKey(f)+":unbounded-only-sealed", p.Pos(copyAll.In.Pos()), "io.Copy (whole file) is used only for segments absent from the captured-size map (sealed at capture)", "a segment that was active at capture can be copied whole: records written after the snapshot instant leak into the backup")
		cnt := false
		if _, v := resolveParam(copyN.Ctx, copyN.In.(*ssa.Call).Call.Args[2]); true {
			if ex, ok := strip(v).(*ssa.Extract); ok && ex.Tuple == ssa.Value(lookup) && ex.Index == 0 {
				cnt = true
			}
		}
		r.check(cnt && ctl(copyN, true), rule+".bounded-copy", funcKey(f)+":bounded-by-capture", p.Pos(copyN.In.Pos()), "active segments are copied with io.CopyN bounded by the captured size", "the bounded copy is not limited by the size captured under the lock")
	}
	// lock file in the backup
	okLock := false
	wl := &IPWalk{P: p, Visit: func(nd Node) bool {
		c, ok := nd.In.(*ssa.Call)
		if ok && calleeKey(&c.Call) == "pogreb.touchFile" && len(c.Call.Args) == 2 && nameAbs(nd.Ctx, c.Call.Args[1], 0) == "lock" {
			return true
		}
		return false
	}}
	root := &Ctx{Fn: f}
	wl.Run(root, nil)
	okLock = true
	for nd := range wl.Reached {
		if wl.rootSuccess(nd) {
			okLock = false
			r.bad(rule+".lock-file", funcKey(f), p.Pos(instrPos(nd.In)), "Backup can return nil without creating the lock file in the backup directory: opening the backup would trust a non-existent index instead of rebuilding it from the copied log", wl.PathTo(nd)...)
		}
	}
	if okLock {
		r.ok(rule+".lock-file", funcKey(f), p.Pos(f.Pos()), "every success return of Backup passes touchFile(<backup fs>, \"lock\")", true)
	}
	// destination files are created empty: O_CREATE and O_TRUNC on the backup file system (a reused directory must not
	// leave the tail of an older, longer file behind the copied prefix)
	{
		oTrunc, oCreate := osFlag(p, "O_TRUNC"), osFlag(p, "O_CREATE")
		ndst := 0
		for nd := range w.Reached {
			fe := fsEventOf(nd)
			if fe == nil || fe.Iface != "fs.FileSystem" || fe.Method != "OpenFile" || strings.HasSuffix(fe.Recv.Chain, ".opts.FileSystem") {
				continue
			}
			_, fv := resolveParam(nd.Ctx, invokeArg(fe.Call, 1))
			fl, ok := constInt(strip(fv))
			if !ok || fl == 0 {
				continue
			}
			ndst++
			r.check(oTrunc != 0 && fl&oTrunc != 0 && fl&oCreate != 0, rule+".dst-truncated", funcKey(nd.Ctx.Fn)+"->OpenFile(dst)", p.Pos(instrPos(nd.In)), "files in the backup directory are opened with O_CREATE|O_TRUNC", "a file of the backup is opened without O_TRUNC: when the directory already holds a longer file of that name its old tail survives behind the copied prefix and is replayed when the backup is opened")
		}
		r.universe(rule+".dst-truncated", ndst, 2)
	}
	// source read-only
	nsrc := 0
	for nd := range w.Reached {
		fe := fsEventOf(nd)
		if fe == nil || fe.Iface != "fs.FileSystem" || !(strings.HasSuffix(fe.Recv.Chain, ".opts.FileSystem")) {
			continue
		}
		nsrc++
		okv := false
		if fe.Method == "OpenFile" {
			if fl, ok := constInt(strip(invokeArg(fe.Call, 1))); ok && fl == 0 {
				okv = true
			}
		}
		r.check(okv, rule+".source-read-only", funcKey(nd.Ctx.Fn)+"->FileSystem."+fe.Method, p.Pos(instrPos(nd.In)), "the source file system is only opened read-only", "Backup calls FileSystem."+fe.Method+" on the source database's file system other than a read-only open: the source is modified by a backup")
	}
	r.universe(rule+".source-read-only", nsrc, 1)
	// the segment list used by the copy loop is the one captured under the lock: no read of datalog.segments after the RUnlock
	// (covered by maintenance-held + C07/C10.guarded: reading datalog.segments needs DB.mu)
}

// resolveParam follows a parameter to the argument passed by the caller along the call string.
func resolveParam(ctx *Ctx, v ssa.Value) (*Ctx, ssa.Value) {
	for d := 0; d < 10; d++ {
		pa, ok := strip(v).(*ssa.Parameter)
		if !ok || ctx == nil || ctx.Parent == nil || ctx.Site == nil || ctx.Fn != pa.Parent() {
			return ctx, v
		}
		cc := callOf(ctx.Site)
		idx := paramIndex(pa)
		if cc.IsInvoke() || idx < 0 || idx >= len(cc.Args) {
			return ctx, v
		}
		v = cc.Args[idx]
		ctx = ctx.Parent
	}
	return ctx, v
}

// ruleC05StopOnError: once compacting one of the picked segments failed, Compact does not go on with the newer ones
// (their delete records may only be dropped when every older picked segment was compacted).
func ruleC05StopOnError(r *Run, p *Program, rule string) {
	f := p.Fn("(*pogreb.DB).Compact")
	if !r.anchor(rule, "(*pogreb.DB).Compact", f != nil) {
		return
	}
	r.fn(funcKey(f))
	all, root := allNodes(p, f)
	var calls []Node
	for nd := range all.Reached {
		if calleeOfNode(nil, nd) == "(*pogreb.DB).compact" {
			calls = append(calls, nd)
		}
	}
	if !r.anchor(rule, "call to compact() under Compact", len(calls) > 0) {
		return
	}
	for _, cn := range calls {
		c, ok := cn.In.(*ssa.Call)
		if !ok {
			continue
		}
		// explore from the call along the "error is non-nil" edge only
		w := &IPWalk{P: p, SkipEdge: func(ctx *Ctx, b *ssa.BasicBlock, k int) bool {
			if ctx != cn.Ctx {
				return false
			}
			cd := edgeCond(b, k)
			if cd == nil {
				return false
			}
			e := errNilEdge(cd)
			return e != nil && valueOfCall(e, c)
		}, NoInline: func(callee *ssa.Function) bool { return funcKey(callee) == "(*pogreb.DB).compact" }}
		w.Run(root, []Node{cn})
		again := false
		tested := false
		for _, bb := range cn.Ctx.Fn.Blocks {
			for k := range bb.Succs {
				if cd := edgeCond(bb, k); cd != nil {
					if e := errNilEdge(cd); e != nil && valueOfCall(e, c) {
						tested = true
					}
				}
			}
		}
		for _, other := range calls {
			if w.Reached[other] {
				again = true
			}
		}
		r.check(tested && !again, rule, funcKey(f)+":stop-on-error", p.Pos(c.Pos()), "after a failed compact(seg) no further segment is compacted in this run", "Compact goes on with the remaining (newer) picked segments after compacting an older one failed: the newer segment's delete records are dropped while the older segment still holds the puts, and the deleted keys come back after a crash")
	}
}

// osFlag returns the value of os.<name> for the loaded configuration (0 if unknown).
func osFlag(p *Program, name string) int64 {
	imp := p.Main.Imports["os"]
	if imp == nil || imp.Types == nil {
		return 0
	}
	c, ok := imp.Types.Scope().Lookup(name).(*types.Const)
	if !ok {
		return 0
	}
	v, _ := constant.Int64Val(c.Val())
	return v
}
