package main

import (
	"go/token"
	"go/types"
	"sort"
	"strings"

	"golang.org/x/tools/go/ssa"
)

// Taint is a whole-package, context-insensitive, field-based value-flow analysis for byte slices.
type Taint struct {
	P       *Program
	IsSrc   func(v ssa.Value) bool // source values
	Vals    map[ssa.Value]bool
	Fields  map[string]bool // "pogreb.item.value": some store put a tainted value in this field
	FieldAt map[string]ssa.Instruction
	Globals map[*ssa.Global]bool
	Rets    map[*ssa.Function]bool // function may return a tainted value
	funcs   []*ssa.Function
	why     map[ssa.Value]ssa.Value
	// Ext: calls that hand a tainted value to code outside the module (or to an unresolved callee)
	Ext    []extUse
	extSet map[ssa.Instruction]bool
}

// extUse is a tainted value passed to a function the analysis cannot see into.
type extUse struct {
	In     ssa.Instruction
	Callee string
	Arg    ssa.Value
}

func isByteSliceish(t types.Type) bool { return sliceish(t, map[types.Type]bool{}, 0) }

func sliceish(t types.Type, seen map[types.Type]bool, d int) bool {
	if isErrorType(t) {
		return false
	}
	if seen[t] || d > 12 {
		return false
	}
	seen[t] = true
	switch u := t.Underlying().(type) {
	case *types.Basic:
		return false
	case *types.Slice:
		return true
	case *types.Struct:
		for i := 0; i < u.NumFields(); i++ {
			if sliceish(u.Field(i).Type(), seen, d+1) {
				return true
			}
		}
	case *types.Pointer:
		return sliceish(u.Elem(), seen, d+1)
	case *types.Tuple:
		for i := 0; i < u.Len(); i++ {
			if sliceish(u.At(i).Type(), seen, d+1) {
				return true
			}
		}
	case *types.Array:
		return sliceish(u.Elem(), seen, d+1)
	case *types.Interface:
		return true
	case *types.Signature:
		return true
	}
	return false
}

func NewTaint(p *Program, pkgPrefixes []string, isSrc func(v ssa.Value) bool) *Taint {
	t := &Taint{P: p, IsSrc: isSrc, Vals: map[ssa.Value]bool{}, Fields: map[string]bool{}, FieldAt: map[string]ssa.Instruction{},
		Globals: map[*ssa.Global]bool{}, Rets: map[*ssa.Function]bool{}, why: map[ssa.Value]ssa.Value{}}
	for _, f := range p.ModuleFuncs("") {
		k := funcKey(f)
		for _, pre := range pkgPrefixes {
			if strings.Contains(k, pre) {
				t.funcs = append(t.funcs, f)
				break
			}
		}
	}
	t.run()
	return t
}

func (t *Taint) mark(v, from ssa.Value) bool {
	if v == nil || t.Vals[v] {
		return false
	}
	t.Vals[v] = true
	t.why[v] = from
	return true
}

// cellOf returns the local cell (Alloc or FreeVar) an address value denotes, if any.
func (t *Taint) run() {
	// call-site map for parameters
	changed := true
	for iter := 0; changed && iter < 50; iter++ {
		changed = false
		for _, f := range t.funcs {
			for _, b := range f.Blocks {
				for _, in := range b.Instrs {
					if t.step(f, in) {
						changed = true
					}
				}
			}
		}
	}
}

func (t *Taint) step(f *ssa.Function, in ssa.Instruction) bool {
	ch := false
	if v, ok := in.(ssa.Value); ok && !t.Vals[v] {
		if t.IsSrc(v) {
			ch = t.mark(v, nil) || ch
		}
	}
	switch x := in.(type) {
	case *ssa.Slice:
		if t.Vals[x.X] {
			ch = t.mark(x, x.X) || ch
		}
	case *ssa.Phi:
		for _, e := range x.Edges {
			if t.Vals[e] {
				ch = t.mark(x, e) || ch
			}
		}
	case *ssa.Extract:
		if t.Vals[x.Tuple] {
			// only slice-ish components
			if isByteSliceish(x.Type()) {
				ch = t.mark(x, x.Tuple) || ch
			}
		}
	case *ssa.ChangeType:
		if t.Vals[x.X] {
			ch = t.mark(x, x.X) || ch
		}
	case *ssa.MakeInterface:
		if t.Vals[x.X] {
			ch = t.mark(x, x.X) || ch
		}
	case *ssa.Convert:
		// []byte -> string copies; string -> []byte copies
	case *ssa.Field:
		if t.Vals[x.X] && isByteSliceish(x.Type()) {
			ch = t.mark(x, x.X) || ch
		}
		if t.Fields[fieldName(x)] {
			ch = t.mark(x, nil) || ch
		}
	case *ssa.Index:
		if t.Vals[x.X] && isByteSliceish(x.Type()) {
			ch = t.mark(x, x.X) || ch
		}
	case *ssa.Lookup:
		if t.Vals[x.X] && isByteSliceish(x.Type()) {
			ch = t.mark(x, x.X) || ch
		}
	case *ssa.UnOp:
		if x.Op == token.MUL && isByteSliceish(x.Type()) {
			switch a := x.X.(type) {
			case *ssa.Alloc, *ssa.FreeVar, *ssa.Parameter:
				if t.Vals[a] { // the cell is tainted
					ch = t.mark(x, a) || ch
				}
			case *ssa.FieldAddr:
				if t.Fields[fieldName(a)] || t.Vals[a.X] && isLocalStructCell(a.X) {
					ch = t.mark(x, nil) || ch
				}
			case *ssa.IndexAddr:
				if t.Vals[a.X] || t.Vals[a] {
					ch = t.mark(x, a.X) || ch
				}
			case *ssa.Global:
				if t.Globals[a] {
					ch = t.mark(x, nil) || ch
				}
			}
		}
		if x.Op == token.ARROW && t.Vals[x.X] {
			ch = t.mark(x, x.X) || ch
		}
	case *ssa.IndexAddr:
		if t.Vals[x.X] {
			ch = t.mark(x, x.X) || ch
		}
	case *ssa.Store:
		if !t.Vals[x.Val] {
			return ch
		}
		switch a := x.Addr.(type) {
		case *ssa.Alloc, *ssa.FreeVar, *ssa.Parameter:
			ch = t.mark(a, x.Val) || ch
		case *ssa.FieldAddr:
			fn := fieldName(a)
			if !t.Fields[fn] {
				t.Fields[fn] = true
				t.FieldAt[fn] = x
				ch = true
			}
		case *ssa.IndexAddr:
			ch = t.mark(a.X, x.Val) || ch
			// storing into an element of a slice held in a cell: taint the slice value's sources
			for _, s := range sources(a.X) {
				ch = t.mark(s, x.Val) || ch
			}
		case *ssa.Global:
			if !t.Globals[a] {
				t.Globals[a] = true
				ch = true
			}
		}
	case *ssa.MakeClosure:
		// bindings: cells shared with the closure body
		if fn, ok := x.Fn.(*ssa.Function); ok {
			for i, b := range x.Bindings {
				if i < len(fn.FreeVars) {
					fv := fn.FreeVars[i]
					if t.Vals[b] {
						ch = t.mark(fv, b) || ch
					}
					if t.Vals[fv] {
						ch = t.mark(b, fv) || ch
					}
				}
			}
		}
	case *ssa.Return:
		for _, r := range x.Results {
			if t.Vals[r] && !t.Rets[f] && isByteSliceish(r.Type()) {
				t.Rets[f] = true
				ch = true
			}
		}
	case *ssa.Call:
		ch = t.call(f, x, &x.Call) || ch
	case *ssa.Defer:
		ch = t.call(f, nil, &x.Call) || ch
	case *ssa.Go:
		ch = t.call(f, nil, &x.Call) || ch
	case *ssa.Send:
		if t.Vals[x.X] {
			ch = t.mark(x.Chan, x.X) || ch
		}
	case *ssa.MapUpdate:
		if t.Vals[x.Value] || t.Vals[x.Key] {
			ch = t.mark(x.Map, x.Value) || ch
		}
	}
	return ch
}

func isLocalStructCell(v ssa.Value) bool {
	_, ok := v.(*ssa.Alloc)
	return ok
}

func (t *Taint) call(f *ssa.Function, res *ssa.Call, cc *ssa.CallCommon) bool {
	ch := false
	if b, ok := cc.Value.(*ssa.Builtin); ok {
		switch b.Name() {
		case "append":
			// result aliases the first argument; elements are copied: byte elements do not alias, struct elements carry their slices
			if len(cc.Args) >= 1 && t.Vals[cc.Args[0]] && res != nil {
				ch = t.mark(res, cc.Args[0]) || ch
			}
			if len(cc.Args) == 2 && t.Vals[cc.Args[1]] && res != nil {
				if sl, ok := cc.Args[1].Type().Underlying().(*types.Slice); ok {
					if bt, ok := sl.Elem().Underlying().(*types.Basic); !ok || bt.Kind() != types.Byte && bt.Kind() != types.Uint8 {
						ch = t.mark(res, cc.Args[1]) || ch
					}
				}
			}
		}
		return ch
	}
	var callees []*ssa.Function
	if sc := cc.StaticCallee(); sc != nil {
		callees = append(callees, sc)
	} else if !cc.IsInvoke() {
		// function values: resolve through the VTA graph
		if res != nil {
			if n := t.P.VTA().Nodes[f]; n != nil {
				for _, e := range n.Out {
					if e.Site == ssa.CallInstruction(res) && e.Callee.Func != nil {
						callees = append(callees, e.Callee.Func)
					}
				}
			}
		}
	}
	// tainted values handed to code outside the module
	{
		external := cc.IsInvoke() || len(callees) == 0
		name := callString(cc)
		for _, callee := range callees {
			if !inModule(callee) {
				external = true
			}
		}
		if external {
			var in ssa.Instruction = res
			if res == nil {
				in = nil
			}
			for _, a := range cc.Args {
				if t.Vals[a] {
					if t.extSet == nil {
						t.extSet = map[ssa.Instruction]bool{}
					}
					key := in
					if key == nil {
						// defer / go: key by the first argument's defining instruction is not available; use a per-callee marker
						continue
					}
					if !t.extSet[key] {
						t.extSet[key] = true
						t.Ext = append(t.Ext, extUse{In: in, Callee: name, Arg: a})
					}
					break
				}
			}
		}
	}
	for _, callee := range callees {
		if !inModule(callee) {
			continue
		}
		// arguments -> parameters
		for i, a := range cc.Args {
			if i < len(callee.Params) && t.Vals[a] {
				ch = t.mark(callee.Params[i], a) || ch
			}
		}
		if t.Rets[callee] && res != nil && isByteSliceish(res.Type()) {
			ch = t.mark(res, nil) || ch
		}
	}
	return ch
}

// Trace renders why v is tainted.
func (t *Taint) Trace(v ssa.Value) []string {
	var out []string
	seen := map[ssa.Value]bool{}
	for v != nil && !seen[v] && len(out) < 12 {
		seen[v] = true
		pos := "-"
		if in, ok := v.(ssa.Instruction); ok {
			pos = t.P.Pos(instrPos(in))
		} else if v.Pos().IsValid() {
			pos = t.P.Pos(v.Pos())
		}
		out = append(out, pos+": "+valString(v))
		v = t.why[v]
	}
	return out
}

func (t *Taint) FieldList() []string {
	var fs []string
	for f := range t.Fields {
		fs = append(fs, f)
	}
	sort.Strings(fs)
	return fs
}
