package main

import (
	"fmt"
	"go/token"
	"go/types"
	"sort"
	"strings"

	"golang.org/x/tools/go/ssa"
)

// Path facts: what is known, along the path being explored, about error-typed SSA values being nil or not.
// They prune branch edges that contradict an earlier test of the same value (also through phis), e.g.
//     err := a(); if err == nil { err = b() }; if err != nil { return err }; ...
// where the path "a failed, second test says err is nil" is infeasible.

type facts string

func (f facts) parse() map[string]bool {
	m := map[string]bool{}
	for _, p := range strings.Split(string(f), ";") {
		if len(p) > 2 {
			m[p[:len(p)-2]] = p[len(p)-1] == '1'
		}
	}
	return m
}

func factsOf(m map[string]bool) facts {
	if len(m) == 0 {
		return ""
	}
	ks := make([]string, 0, len(m))
	for k := range m {
		ks = append(ks, k)
	}
	sort.Strings(ks)
	if len(ks) > 24 {
		ks = ks[len(ks)-24:]
	}
	var sb strings.Builder
	for _, k := range ks {
		sb.WriteString(k)
		if m[k] {
			sb.WriteString(":1;")
		} else {
			sb.WriteString(":0;")
		}
	}
	return facts(sb.String())
}

func valID(v ssa.Value) string { return fmt.Sprintf("%p", v) }

// tracked: per function, the error values worth remembering: phis of error type that are tested against nil, and the
// values flowing into them. Functions without such a phi carry no facts at all (no cost).
var trackedCache = map[*ssa.Function]map[ssa.Value]bool{}

func tracked(fn *ssa.Function) map[ssa.Value]bool {
	if t, ok := trackedCache[fn]; ok {
		return t
	}
	t := map[ssa.Value]bool{}
	for _, b := range fn.Blocks {
		for _, in := range b.Instrs {
			ph, ok := in.(*ssa.Phi)
			if !ok {
				break
			}
			if !isErrorType(ph.Type()) {
				continue
			}
			t[ph] = true
			for _, e := range ph.Edges {
				t[strip(e)] = true
			}
		}
	}
	// boolean phis that decide a branch (loop flags such as "more"/"done"), and the values flowing into them
	for _, b := range fn.Blocks {
		for _, in := range b.Instrs {
			ph, ok := in.(*ssa.Phi)
			if !ok {
				break
			}
			if !isBoolType(ph.Type()) || ph.Referrers() == nil {
				continue
			}
			cond := false
			for _, u := range *ph.Referrers() {
				if _, ok := u.(*ssa.If); ok {
					cond = true
				}
			}
			if !cond {
				continue
			}
			t[ph] = true
			for _, e := range ph.Edges {
				if _, isc := strip(e).(*ssa.Const); !isc {
					t[strip(e)] = true
				}
			}
		}
	}
	// boolean results of calls that decide a branch directly ("for step() { }")
	for _, b := range fn.Blocks {
		if len(b.Instrs) == 0 {
			continue
		}
		if iff, ok := b.Instrs[len(b.Instrs)-1].(*ssa.If); ok && isBoolType(iff.Cond.Type()) {
			switch c := iff.Cond.(type) {
			case *ssa.Call:
				t[c] = true
			case *ssa.Extract:
				if _, ok := c.Tuple.(*ssa.Call); ok {
					t[c] = true
				}
			}
		}
	}
	// local cells of type error (named results, variables captured or spilled): the cell, its loads and the values stored
	for _, b := range fn.Blocks {
		for _, in := range b.Instrs {
			a, ok := in.(*ssa.Alloc)
			if !ok {
				continue
			}
			if pt, ok := a.Type().Underlying().(*types.Pointer); !ok || !isErrorType(pt.Elem()) {
				continue
			}
			refs := a.Referrers()
			if refs == nil {
				continue
			}
			t[a] = true
			for _, rf := range *refs {
				switch x := rf.(type) {
				case *ssa.Store:
					if x.Addr == ssa.Value(a) {
						t[strip(x.Val)] = true
					}
				case *ssa.UnOp:
					t[x] = true
				}
			}
		}
	}
	// error cells of the enclosing function used by a closure
	for _, fv := range fn.FreeVars {
		root := cellRoot(fv)
		if root == nil || fv.Referrers() == nil {
			continue
		}
		t[root] = true
		for _, rf := range *fv.Referrers() {
			switch x := rf.(type) {
			case *ssa.Store:
				if x.Addr == ssa.Value(fv) {
					t[strip(x.Val)] = true
				}
			case *ssa.UnOp:
				t[x] = true
			}
		}
	}
	if len(t) == 0 {
		t = nil
	}
	trackedCache[fn] = t
	return t
}

// errCell returns the local error cell v is a direct load of (nil otherwise).
func errCell(v ssa.Value) *ssa.Alloc {
	u, ok := strip(v).(*ssa.UnOp)
	if !ok || u.Op != token.MUL {
		return nil
	}
	return cellRoot(u.X)
}

// cellRoot: the error cell an address denotes: a local Alloc of type *error, or, inside a closure, the enclosing
// function's cell a free variable is bound to (an anonymous function has one MakeClosure site, so this is static).
func cellRoot(addr ssa.Value) *ssa.Alloc {
	for depth := 0; depth < 6; depth++ {
		switch x := addr.(type) {
		case *ssa.Alloc:
			if pt, ok := x.Type().Underlying().(*types.Pointer); !ok || !isErrorType(pt.Elem()) {
				return nil
			}
			return x
		case *ssa.FreeVar:
			if pt, ok := x.Type().Underlying().(*types.Pointer); !ok || !isErrorType(pt.Elem()) {
				return nil
			}
			b := freeVarBinding(x)
			if b == nil {
				return nil
			}
			addr = b
		default:
			return nil
		}
	}
	return nil
}

var freeVarBindingCache = map[*ssa.FreeVar]ssa.Value{}

func freeVarBinding(fv *ssa.FreeVar) ssa.Value {
	if b, ok := freeVarBindingCache[fv]; ok {
		return b
	}
	var res ssa.Value
	fn := fv.Parent()
	idx := -1
	for i, x := range fn.FreeVars {
		if x == fv {
			idx = i
		}
	}
	n := 0
	if p := fn.Parent(); p != nil && idx >= 0 {
		for _, b := range p.Blocks {
			for _, in := range b.Instrs {
				if mc, ok := in.(*ssa.MakeClosure); ok && mc.Fn == ssa.Value(fn) && idx < len(mc.Bindings) {
					res = mc.Bindings[idx]
					n++
				}
			}
		}
	}
	if n != 1 {
		res = nil
	}
	freeVarBindingCache[fv] = res
	return res
}

// known reports whether v is known nil (isNil=true) or known non-nil on this path.
func (f facts) known(v ssa.Value) (known, isNil bool) {
	v = strip(v)
	if isNilConst(v) {
		return true, true
	}
	if bv, isc := constBool(v); isc {
		return true, bv // for booleans the fact is the truth value
	}
	if f == "" {
		return false, false
	}
	n, ok := f.parse()[valID(v)]
	return ok, n
}

func isBoolType(t types.Type) bool {
	b, ok := t.Underlying().(*types.Basic)
	return ok && b.Kind() == types.Bool
}

// feasible reports whether edge b->Succs[k] is compatible with the facts.
func (f facts) feasible(b *ssa.BasicBlock, k int) bool {
	c := edgeCond(b, k)
	if c == nil {
		return true
	}
	if e := errNilEdge(c); e != nil {
		if kn, isNil := f.known(e); kn && !isNil {
			return false
		}
	}
	if e := errNonNilEdge(c); e != nil {
		if kn, isNil := f.known(e); kn && isNil {
			return false
		}
	}
	if c.Op == token.ILLEGAL && c.V != nil && isBoolType(c.V.Type()) {
		if _, isc := strip(c.V).(*ssa.Const); !isc {
			if kn, truth := f.known(c.V); kn && truth != c.Pos {
				return false
			}
		}
	}
	return true
}

// afterEdge returns the facts holding at the entry of b.Succs[k] after taking that edge.
func (f facts) afterEdge(b *ssa.BasicBlock, k int) facts {
	succ := b.Succs[k]
	tr := tracked(b.Parent())
	if tr == nil {
		// nothing of this function is tracked. Inside a closure (a deferred clean-up, a visitor) what is known about the
		// enclosing function's values stays; a named function starts from nothing, which keeps the number of distinct
		// path states per callee small
		if b.Parent().Parent() != nil {
			return f
		}
		return ""
	}
	var m map[string]bool
	get := func() map[string]bool {
		if m == nil {
			m = f.parse()
		}
		return m
	}
	if c := edgeCond(b, k); c != nil {
		if e := errNilEdge(c); e != nil && !isNilConst(strip(e)) && tr[strip(e)] {
			get()[valID(strip(e))] = true
			if cell := errCell(e); cell != nil {
				get()[valID(cell)] = true
			}
		}
		if e := errNonNilEdge(c); e != nil && !isNilConst(strip(e)) && tr[strip(e)] {
			get()[valID(strip(e))] = false
			if cell := errCell(e); cell != nil {
				get()[valID(cell)] = false
			}
		}
		if c.Op == token.ILLEGAL && c.V != nil && isBoolType(c.V.Type()) && tr[strip(c.V)] {
			get()[valID(strip(c.V))] = c.Pos
		}
	}
	// phi transfer
	pi := -1
	for i, p := range succ.Preds {
		if p == b {
			pi = i
		}
	}
	for _, in := range succ.Instrs {
		ph, ok := in.(*ssa.Phi)
		if !ok {
			break
		}
		if !(isErrorType(ph.Type()) || isBoolType(ph.Type())) || pi < 0 || pi >= len(ph.Edges) || !tr[ph] {
			continue
		}
		inc := strip(ph.Edges[pi])
		cur := f
		if m != nil {
			cur = factsOf(m)
		}
		if kn, isNil := cur.known(inc); kn {
			get()[valID(ph)] = isNil
		} else if _, had := get()[valID(ph)]; had {
			delete(get(), valID(ph))
		}
	}
	if m == nil {
		return f
	}
	return factsOf(m)
}

// afterInstr drops facts about a value when its defining instruction executes again (loops).
func (f facts) afterInstr(in ssa.Instruction) facts {
	// stores to / loads from local error cells
	switch x := in.(type) {
	case *ssa.Store:
		if a := cellRoot(x.Addr); a != nil && tracked(in.Parent())[a] {
			m := f.parse()
			if kn, isNil := f.known(x.Val); kn {
				m[valID(a)] = isNil
			} else {
				delete(m, valID(a))
			}
			return factsOf(m)
		}
	case *ssa.UnOp:
		if cell := errCell(x); cell != nil && tracked(in.Parent())[cell] {
			m := f.parse()
			if n, ok := m[valID(cell)]; ok {
				m[valID(x)] = n
			} else {
				delete(m, valID(x))
			}
			return factsOf(m)
		}
	}
	if f == "" {
		return f
	}
	if _, isPhi := in.(*ssa.Phi); isPhi {
		return f // facts about phis are established by the incoming edge
	}
	if ex, isEx := in.(*ssa.Extract); isEx {
		if _, ofCall := ex.Tuple.(*ssa.Call); ofCall {
			return f // facts about a call's results are established when the callee returns
		}
	}
	v, ok := in.(ssa.Value)
	if !ok {
		return f
	}
	if c, isCall := in.(*ssa.Call); isCall && c.Referrers() != nil {
		// the call executes (again): what was known about its previous results no longer holds
		var m map[string]bool
		for _, rf := range *c.Referrers() {
			if ex, ok := rf.(*ssa.Extract); ok && strings.Contains(string(f), valID(ex)) {
				if m == nil {
					m = f.parse()
				}
				delete(m, valID(ex))
			}
		}
		if m != nil {
			f = factsOf(m)
		}
	}
	id := valID(v)
	if !strings.Contains(string(f), id) {
		return f
	}
	m := f.parse()
	delete(m, id)
	return factsOf(m)
}

// withErrResult records that the error result of call instruction site is nil / non-nil.
func (f facts) withErrResult(site ssa.Instruction, isNil bool) facts {
	c, ok := site.(*ssa.Call)
	if !ok {
		return f
	}
	tr := tracked(c.Parent())
	if tr == nil {
		return ""
	}
	sig := c.Call.Signature()
	if sig == nil || sig.Results().Len() == 0 {
		return f
	}
	n := sig.Results().Len()
	if !isErrorType(sig.Results().At(n - 1).Type()) {
		return f
	}
	m := f.parse()
	if n == 1 {
		if tr[c] {
			m[valID(c)] = isNil
		}
	} else if refs := c.Referrers(); refs != nil {
		for _, rf := range *refs {
			if ex, ok := rf.(*ssa.Extract); ok && ex.Index == n-1 && tr[ex] {
				m[valID(ex)] = isNil
			}
		}
	}
	return factsOf(m)
}

// withBoolResult records the truth of boolean result idx of call instruction site.
func (f facts) withBoolResult(site ssa.Instruction, idx int, truth bool) facts {
	c, ok := site.(*ssa.Call)
	if !ok {
		return f
	}
	tr := tracked(c.Parent())
	if tr == nil {
		return f
	}
	m := f.parse()
	sig := c.Call.Signature()
	if sig != nil && sig.Results().Len() == 1 {
		if tr[c] {
			m[valID(c)] = truth
		}
	} else if refs := c.Referrers(); refs != nil {
		for _, rf := range *refs {
			if ex, ok := rf.(*ssa.Extract); ok && ex.Index == idx && tr[ex] {
				m[valID(ex)] = truth
			}
		}
	}
	return factsOf(m)
}

// dropCallResults forgets what was known about the results of an earlier execution of call c.
func (f facts) dropCallResults(c *ssa.Call) facts {
	if f == "" {
		return f
	}
	var m map[string]bool
	del := func(v ssa.Value) {
		if strings.Contains(string(f), valID(v)) {
			if m == nil {
				m = f.parse()
			}
			delete(m, valID(v))
		}
	}
	del(c)
	if c.Referrers() != nil {
		for _, rf := range *c.Referrers() {
			if ex, ok := rf.(*ssa.Extract); ok {
				del(ex)
			}
		}
	}
	if m == nil {
		return f
	}
	return factsOf(m)
}
