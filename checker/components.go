package main

import (
	"fmt"
	"go/token"
	"go/types"
	"strings"

	"golang.org/x/tools/go/ssa"
)

// Result components: a function may hand several scalars back as a tuple or packed into a struct. A component is
// named "#i" (result i) or "#i.f" (field f of struct result i), so rules can follow a scalar from the return that
// produced it to the use in the caller whichever way it travels.

// valueComponent: v is component comp of the result of call c (nil when v does not come straight from a call).
func valueComponent(v ssa.Value) (*ssa.Call, string) {
	v = strip(v)
	switch x := v.(type) {
	case *ssa.Extract:
		if c, ok := x.Tuple.(*ssa.Call); ok {
			return c, fmt.Sprintf("#%d", x.Index)
		}
	case *ssa.Call:
		return x, "#0"
	case *ssa.Field:
		if c, comp := valueComponent(x.X); c != nil {
			if st, ok := x.X.Type().Underlying().(*types.Struct); ok {
				return c, comp + "." + st.Field(x.Field).Name()
			}
		}
	case *ssa.UnOp:
		if x.Op != token.MUL {
			return nil, ""
		}
		// load of (a field of) a local variable holding the call's result
		var fields []string
		base := x.X
		for {
			fa, ok := base.(*ssa.FieldAddr)
			if !ok {
				break
			}
			st := derefStruct(fa.X.Type())
			if st == nil {
				return nil, ""
			}
			fields = append([]string{st.Field(fa.Field).Name()}, fields...)
			base = fa.X
		}
		al, ok := base.(*ssa.Alloc)
		if !ok {
			return nil, ""
		}
		st := allocStores(al)
		if len(st) != 1 {
			return nil, ""
		}
		if c, comp := valueComponent(st[0]); c != nil {
			for _, f := range fields {
				comp += "." + f
			}
			return c, comp
		}
	}
	return nil, ""
}

// retComponents lists the scalar components a return hands back.
func retComponents(ret *ssa.Return) map[string]ssa.Value {
	out := map[string]ssa.Value{}
	for i := range ret.Results {
		o := strip(retOperand(ret, i))
		name := fmt.Sprintf("#%d", i)
		st, isStruct := o.Type().Underlying().(*types.Struct)
		if !isStruct {
			out[name] = o
			continue
		}
		ld, ok := o.(*ssa.UnOp)
		if !ok || ld.Op != token.MUL {
			out[name] = o
			continue
		}
		al, ok := ld.X.(*ssa.Alloc)
		if !ok || al.Referrers() == nil {
			out[name] = o
			continue
		}
		for _, u := range *al.Referrers() {
			fa, ok := u.(*ssa.FieldAddr)
			if !ok || fa.Referrers() == nil {
				continue
			}
			var vals []ssa.Value
			for _, w := range *fa.Referrers() {
				if s, ok := w.(*ssa.Store); ok && s.Addr == ssa.Value(fa) {
					vals = append(vals, s.Val)
				}
			}
			if len(vals) == 1 {
				out[name+"."+st.Field(fa.Field).Name()] = strip(vals[0])
			}
		}
	}
	return out
}

// locKind classifies v as part of a record location: "id" - the id of the current segment at the time of an append,
// "off" - the offset (*file).append returned; directly, or as the component of a module function's result whose
// every success return puts such a value there. "" otherwise.
func locKind(v ssa.Value, d int) string {
	if d > 4 {
		return ""
	}
	v = strip(v)
	if isFieldLoad(v, "pogreb.segment.id") && accessPathHas(v, ".curSeg.") {
		return "id"
	}
	if cv, ok := v.(*ssa.Convert); ok {
		if c, idx := callResult(cv.X); c != nil && idx == 0 && calleeKey(&c.Call) == "(*pogreb.file).append" {
			return "off"
		}
	}
	c, comp := valueComponent(v)
	if c == nil {
		return ""
	}
	g := c.Call.StaticCallee()
	if g == nil || g.Blocks == nil || g.Pkg == nil || !strings.HasPrefix(g.Pkg.Pkg.Path(), modPath) {
		return ""
	}
	kind := ""
	for _, ret := range returnsOf(g) {
		if isFailureReturn(g, ret) {
			continue
		}
		cv, ok := retComponents(ret)[comp]
		if !ok {
			return ""
		}
		k := locKind(cv, d+1)
		if k == "" || (kind != "" && k != kind) {
			return ""
		}
		kind = k
	}
	return kind
}

// logicalArgs lists the scalar arguments of a call: the positional arguments (receiver included), with an argument
// that is a struct built by a composite literal (a parameter object) expanded into its field values in field order.
// A field the literal leaves unset is reported as the zero constant of its type (nil value, Zero true).
type logicalArg struct {
	V    ssa.Value
	T    types.Type
	Zero bool
}

func logicalArgs(cc *ssa.CallCommon) []logicalArg {
	var out []logicalArg
	for _, a := range cc.Args {
		st, isStruct := a.Type().Underlying().(*types.Struct)
		if !isStruct {
			out = append(out, logicalArg{V: a, T: a.Type()})
			continue
		}
		ld, ok := strip(a).(*ssa.UnOp)
		var al *ssa.Alloc
		if ok && ld.Op == token.MUL {
			al, _ = ld.X.(*ssa.Alloc)
		}
		if al == nil || al.Referrers() == nil {
			out = append(out, logicalArg{V: a, T: a.Type()})
			continue
		}
		vals := map[int]ssa.Value{}
		for _, u := range *al.Referrers() {
			fa, ok := u.(*ssa.FieldAddr)
			if !ok || fa.Referrers() == nil {
				continue
			}
			for _, w := range *fa.Referrers() {
				if s, ok := w.(*ssa.Store); ok && s.Addr == ssa.Value(fa) {
					vals[fa.Field] = s.Val
				}
			}
		}
		for i := 0; i < st.NumFields(); i++ {
			if v, ok := vals[i]; ok {
				out = append(out, logicalArg{V: v, T: st.Field(i).Type()})
			} else {
				out = append(out, logicalArg{T: st.Field(i).Type(), Zero: true})
			}
		}
	}
	return out
}

// boolArg returns the constant value of the call's only boolean (logical) argument.
func boolArg(cc *ssa.CallCommon) (val, isConst bool) {
	n := 0
	for _, a := range logicalArgs(cc) {
		if !isBoolType(a.T) {
			continue
		}
		n++
		if a.Zero {
			val, isConst = false, true
		} else {
			val, isConst = constBool(a.V)
		}
	}
	if n != 1 {
		return false, false
	}
	return val, isConst
}

// byteSliceArg returns the call's only []byte (logical) argument.
func byteSliceArg(cc *ssa.CallCommon) ssa.Value {
	var out ssa.Value
	n := 0
	for _, a := range logicalArgs(cc) {
		sl, ok := a.T.Underlying().(*types.Slice)
		if !ok {
			continue
		}
		if b, ok := sl.Elem().Underlying().(*types.Basic); !ok || (b.Kind() != types.Byte && b.Kind() != types.Uint8) {
			continue
		}
		n++
		out = a.V
	}
	if n != 1 {
		return nil
	}
	return out
}
