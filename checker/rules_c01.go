package main

import (
	"fmt"
	"go/token"
	"go/types"
	"strings"

	"golang.org/x/tools/go/ssa"
)

// isChainNext: the chain-iteration step, identified by its shape rather than its name: a method of package pogreb with
// no parameters and results (bucketHandle, error).
func isChainNextFn(f *ssa.Function) bool {
	if f == nil || f.Pkg == nil || f.Pkg.Pkg.Path() != modPath || f.Signature.Recv() == nil {
		return false
	}
	sig := f.Signature
	if sig.Params().Len() != 0 || sig.Results().Len() != 2 {
		return false
	}
	return typeName(sig.Results().At(0).Type()) == "pogreb.bucketHandle" && isErrorType(sig.Results().At(1).Type())
}

func isChainNextCall(c *ssa.CallCommon) bool {
	return c != nil && isChainNextFn(c.StaticCallee())
}

// chainWalkers returns the module functions that call the chain-iteration step inside a loop, with the calls.
func chainWalkers(p *Program) map[*ssa.Function][]*ssa.Call {
	out := map[*ssa.Function][]*ssa.Call{}
	for _, f := range p.ModuleFuncs("") {
		instrsOf(f, func(in ssa.Instruction) {
			c, ok := in.(*ssa.Call)
			if !ok || !isChainNextCall(&c.Call) {
				return
			}
			if inCycle(c.Block()) {
				out[f] = append(out[f], c)
			}
		})
	}
	return out
}

// isMatchKeyCall reports whether the call invokes a value of the named function type matchKeyFunc.
func isMatchKeyCall(c *ssa.Call) bool {
	if c.Call.IsInvoke() || c.Call.StaticCallee() != nil {
		return false
	}
	return typeName(c.Call.Value.Type()) == "pogreb.matchKeyFunc"
}

// isSlotFieldLoad reports whether v reads field `name` of a pogreb.slot value.
func isSlotFieldLoad(v ssa.Value, name string) bool {
	v = strip(v)
	switch x := v.(type) {
	case *ssa.UnOp:
		if x.Op == token.MUL {
			return fieldName(x.X) == "pogreb.slot."+name
		}
	case *ssa.Field:
		return fieldName(x) == "pogreb.slot."+name
	}
	return false
}

func isFieldLoad(v ssa.Value, qual string) bool {
	v = strip(v)
	switch x := v.(type) {
	case *ssa.UnOp:
		if x.Op == token.MUL {
			return fieldName(x.X) == qual
		}
	case *ssa.Field:
		return fieldName(x) == qual
	}
	return false
}

// chainEdgeClass classifies a branch edge inside a chain walker. "" = not a justified walk exit.
func chainEdgeClass(c *Cond) string {
	if c == nil {
		return ""
	}
	// error propagation: e != nil where e is (a result of) a call
	if e := errNonNilEdge(c); e != nil {
		if call, _ := callResult(e); call != nil {
			return "error"
		}
	}
	if eq, ok := c.holdsEq(); ok && eq {
		// chain end: err == ErrIterationDone with err the error result of bucketIterator.next
		for _, pr := range [][2]ssa.Value{{c.X, c.Y}, {c.Y, c.X}} {
			if globalLoad(pr[1]) == "pogreb.ErrIterationDone" {
				if call, idx := callResult(pr[0]); call != nil && idx == 1 && isChainNextCall(&call.Call) {
					return "chain-end"
				}
			}
			// chain end: bucket.next == 0
			if isFieldLoad(pr[0], "pogreb.bucket.next") {
				if k, ok := constInt(pr[1]); ok && k == 0 {
					return "chain-end"
				}
			}
			// identity of the record sought (walkers without a key callback): slot.offset / slot.segmentID equal to a non-constant
			if isSlotFieldLoad(pr[0], "offset") || isSlotFieldLoad(pr[0], "segmentID") {
				if _, isc := pr[1].(*ssa.Const); !isc {
					return "match"
				}
			}
		}
	}
	// match: the boolean result of a matchKeyFunc call is true
	if c.Op == token.ILLEGAL && c.Pos {
		if matchDerived(c.V, 0) {
			return "match"
		}
	}
	// the walk is driven by a visitor callback (forEachSlot(start, visit)): it stops when the visitor says so, and every
	// visitor passed by a caller says so only behind a match or an error
	if c.Op == token.ILLEGAL && c.V != nil && isBoolType(c.V.Type()) {
		if call, idx := callResult(c.V); call != nil && idx >= 0 && !isMatchKeyCall(call) && call.Call.StaticCallee() == nil && !call.Call.IsInvoke() {
			if pa, ok := strip(call.Call.Value).(*ssa.Parameter); ok && visitorsStopOnlyJustified(pa, c.Pos) {
				return "match"
			}
		}
	}
	return ""
}

var curProgram *Program

// visitorsStopOnlyJustified: every function value passed for parameter pa by a static caller of pa's function returns
// the boolean `val` (first result) only behind a key/record match or an error.
func visitorsStopOnlyJustified(pa *ssa.Parameter, val bool) bool {
	p := curProgram
	if p == nil {
		return false
	}
	f := pa.Parent()
	i := paramIndex(pa)
	n := 0
	okAll := true
	for _, c := range staticCallersOf(p, f) {
		instrsOf(c, func(in ssa.Instruction) {
			ci, ok := in.(ssa.CallInstruction)
			if !ok || ci.Common().StaticCallee() != f || i < 0 || i >= len(ci.Common().Args) {
				return
			}
			n++
			h, _, _ := resolveFuncValue(&Ctx{Fn: c}, ci.Common().Args[i], 0)
			if h == nil || h.Blocks == nil {
				okAll = false
				return
			}
			for _, ret := range returnsOf(h) {
				if len(ret.Results) == 0 {
					okAll = false
					continue
				}
				// an error return is justified whatever it says
				if ei := errResultIndex(h); ei >= 0 && provablyNonNil(h, retOperand(ret, ei), ret) {
					continue
				}
				if !boolOnlyUnder(h, ret, retOperand(ret, 0), val, func(cd *Cond) bool {
					switch chainEdgeClass(cd) {
					case "match", "error":
						return true
					}
					return false
				}) {
					okAll = false
				}
			}
		})
	}
	return n > 0 && okAll
}

// boolOnlyUnder: at return ret of h, the boolean v equals want only where pred holds (see returnsOnlyUnder).
func boolOnlyUnder(h *ssa.Function, ret *ssa.Return, v ssa.Value, want bool, pred func(c *Cond) bool) bool {
	v = strip(v)
	if bv, isc := constBool(v); isc {
		return bv != want || controlledBy(h, ret, pred)
	}
	if ph, ok := v.(*ssa.Phi); ok {
		for i, e := range ph.Edges {
			pb := ph.Block().Preds[i]
			es := strip(e)
			if bv, isc := constBool(es); isc {
				if bv != want {
					continue
				}
				good := false
				for k, sct := range pb.Succs {
					if sct == ph.Block() {
						if c := edgeCond(pb, k); c != nil && pred(c) {
							good = true
						}
					}
				}
				if !good && len(pb.Instrs) > 0 && controlledBy(h, pb.Instrs[0], pred) {
					good = true
				}
				if !good {
					return false
				}
				continue
			}
			if !pred(condOfValue(es, want)) {
				if in, ok := es.(ssa.Instruction); !ok || !controlledBy(h, in, pred) {
					return false
				}
			}
		}
		return true
	}
	if pred(condOfValue(v, want)) {
		return true
	}
	return controlledBy(h, ret, pred)
}

// matchDerived: the boolean v can be true only when a key callback (matchKeyFunc) reported a match: it is the
// callback's boolean result, or the boolean result of a helper every return of which hands back false or such a value.
func matchDerived(v ssa.Value, d int) bool {
	if d > 3 {
		return false
	}
	v = strip(v)
	if ph, ok := v.(*ssa.Phi); ok {
		some := false
		for _, e := range ph.Edges {
			if bv, isc := constBool(strip(e)); isc && !bv {
				continue
			}
			if !matchDerived(e, d+1) {
				return false
			}
			some = true
		}
		return some
	}
	call, idx := callResult(v)
	if call == nil {
		return false
	}
	if isMatchKeyCall(call) {
		return idx == 0
	}
	g := call.Call.StaticCallee()
	if g == nil || g.Blocks == nil || idx < 0 || g.Pkg == nil || !strings.HasPrefix(g.Pkg.Pkg.Path(), modPath) {
		return false
	}
	some := false
	for _, ret := range returnsOf(g) {
		if idx >= len(ret.Results) {
			return false
		}
		o := strip(retOperand(ret, idx))
		if bv, isc := constBool(o); isc && !bv {
			continue
		}
		if !matchDerived(o, d+1) {
			return false
		}
		some = true
	}
	return some
}

// carriesCallbackErr: the error value e is non-nil whenever a key callback below it returned an error: it is the
// callback's error result, or the error result of a helper in which every return reachable from a callback call
// without passing that callback's "err == nil" edge returns the callback's error.
func carriesCallbackErr(e ssa.Value, d int) bool {
	if d > 3 {
		return false
	}
	call, idx := callResult(e)
	if call == nil {
		return false
	}
	if isMatchKeyCall(call) {
		return idx == 1
	}
	g := call.Call.StaticCallee()
	if g == nil || g.Blocks == nil || idx < 0 || idx != errResultIndex(g) || g.Pkg == nil || !strings.HasPrefix(g.Pkg.Pkg.Path(), modPath) {
		return false
	}
	n := 0
	okAll := true
	instrsOf(g, func(in ssa.Instruction) {
		mk, ok := in.(*ssa.Call)
		if !ok || !isMatchKeyCall(mk) {
			return
		}
		n++
		isMkErr := func(v ssa.Value) bool {
			c, i := callResult(v)
			return c == mk && i == 1
		}
		w := &Walk{Fn: g, SkipEdge: func(b *ssa.BasicBlock, k int) bool {
			c := edgeCond(b, k)
			if c == nil {
				return false
			}
			x := errNilEdge(c)
			return x != nil && isMkErr(x)
		}}
		w.From(mk)
		for _, ret := range returnsOf(g) {
			if w.Visited[ret] && !isMkErr(retOperand(ret, idx)) {
				okAll = false
			}
		}
	})
	return n > 0 && okAll
}

func ruleC01ChainExit(r *Run, p *Program, rule string) {
	walkers := chainWalkers(p)
	r.universe(rule, len(walkers), 2)
	// every operation that has to walk a chain reaches a walker (the walk may live in a shared helper)
	for _, k := range []string{"(*pogreb.index).get", "(*pogreb.index).delete", "(*pogreb.index).put", "(*pogreb.index).split", "(*pogreb.ItemIterator).fetchItems", "(*pogreb.DB).promoteRecord"} {
		f := p.Fn(k)
		if !r.anchor(rule, k, f != nil) {
			continue
		}
		reaches := false
		for _, h := range deepFuncs(p, f) {
			if _, ok := walkers[h]; ok {
				reaches = true
			}
		}
		r.check(reaches, rule, k+":walks", p.Pos(f.Pos()), k+" reaches a bucket-chain walk", k+" no longer walks a bucket chain")
	}
	exits := 0
	for f, calls := range walkers {
		r.fn(funcKey(f))
		var starts []ssa.Instruction
		for _, c := range calls {
			starts = append(starts, c)
		}
		justified := map[string]int{}
		w := &Walk{Fn: f,
			SkipEdge: func(b *ssa.BasicBlock, k int) bool {
				cl := chainEdgeClass(edgeCond(b, k))
				if cl != "" {
					justified[cl]++
				}
				return cl != ""
			}}
		w.From(starts...)
		bad := 0
		for _, ret := range returnsOf(f) {
			exits++
			if w.Visited[ret] {
				bad++
				r.bad(rule, funcKey(f), p.Pos(instrPos(ret)),
					"a bucket-chain walk can end ("+instrString(ret)+") on a path that saw neither the end of the chain, nor an error, nor a key/record match: slots further down the chain are never examined (bucket.del leaves empty slots in non-tail buckets)",
					w.PathTo(p, ret)...)
			}
		}
		instrsOf(f, func(in ssa.Instruction) {
			if pn, ok := in.(*ssa.Panic); ok && w.Visited[pn] {
				bad++
				r.bad(rule, funcKey(f), p.Pos(instrPos(pn)), "panic reachable inside a chain walk without end-of-chain/error/match", w.PathTo(p, pn)...)
			}
		})
		if bad == 0 {
			r.ok(rule, funcKey(f), p.Pos(f.Pos()),
				fmt.Sprintf("every exit of the walk is behind a justified edge (chain-end=%d, error=%d, match=%d edges); %d returns", justified["chain-end"], justified["error"], justified["match"], len(returnsOf(f))), true)
		}
	}
	r.CallSites += exits
}

// matchKeyClosures returns the function literals whose signature is that of matchKeyFunc.
func matchKeyClosures(p *Program) []*ssa.Function {
	mk := p.NamedType(p.Main, "matchKeyFunc")
	if mk == nil {
		return nil
	}
	var out []*ssa.Function
	for _, f := range p.ModuleFuncs("") {
		if f.Parent() == nil || f.Pkg != p.MainS {
			continue
		}
		if types.Identical(f.Signature, mk.Underlying()) {
			out = append(out, f)
		}
	}
	return out
}

// derivesFrom reports whether v is computed from a value satisfying pred through slicing, phis and local cells.
func derivesFrom(v ssa.Value, pred func(ssa.Value) bool) bool {
	seen := map[ssa.Value]bool{}
	var rec func(v ssa.Value, d int) bool
	rec = func(v ssa.Value, d int) bool {
		if v == nil || seen[v] || d > 30 {
			return false
		}
		seen[v] = true
		if pred(v) {
			return true
		}
		for _, s := range sources(v) {
			if s != v && rec(s, d+1) {
				return true
			}
			if pred(s) {
				return true
			}
			switch x := s.(type) {
			case *ssa.Slice:
				if rec(x.X, d+1) {
					return true
				}
			case *ssa.Extract:
				if pred(x) {
					return true
				}
			}
		}
		return false
	}
	return rec(v, 0)
}

func ruleC01MatchEqual(r *Run, p *Program, rule string) {
	cls := matchKeyClosures(p)
	r.universe(rule, len(cls), 3)
	for _, f := range cls {
		r.fn(funcKey(f))
		// the bytes.Equal calls comparing the sought key with the stored key
		isGoodEqual := func(c *Cond) bool {
			if c.Op != token.ILLEGAL || !c.Pos {
				return false
			}
			call, ok := strip(c.V).(*ssa.Call)
			if !ok || calleeKey(&call.Call) != "bytes.Equal" || len(call.Call.Args) != 2 {
				return false
			}
			isKey := func(v ssa.Value) bool {
				// a byte slice of the enclosing operation: a captured variable, or a field of a captured parameter object
				return derivesFrom(v, func(x ssa.Value) bool {
					t := x.Type()
					if pt, ok := t.Underlying().(*types.Pointer); ok {
						t = pt.Elem()
					}
					if _, isSlice := t.Underlying().(*types.Slice); !isSlice {
						return false
					}
					for d := 0; d < 8; d++ {
						switch y := x.(type) {
						case *ssa.FreeVar:
							return true
						case *ssa.UnOp:
							if y.Op != token.MUL {
								return false
							}
							x = y.X
						case *ssa.FieldAddr:
							x = y.X
						case *ssa.Field:
							x = y.X
						default:
							return false
						}
					}
					return false
				})
			}
			isStored := func(v ssa.Value) bool {
				return derivesFrom(v, func(x ssa.Value) bool {
					c, idx := callResult(x)
					if c == nil {
						return false
					}
					k := calleeKey(&c.Call)
					return (k == "(*pogreb.datalog).readKey" || k == "(*pogreb.datalog).readKeyValue") && idx == 0 && len(c.Call.Args) == 2 && isParamOf(c.Call.Args[1], f)
				})
			}
			a, b := call.Call.Args[0], call.Call.Args[1]
			return (isKey(a) && isStored(b)) || (isKey(b) && isStored(a))
		}
		n := 0
		for _, ret := range returnsOf(f) {
			if len(ret.Results) != 2 {
				continue
			}
			if bv, ok := constBool(ret.Results[0]); ok && !bv {
				continue // "no match"
			}
			if provablyNonNil(f, ret.Results[1], ret) {
				continue // error return
			}
			n++
			ok := controlledBy(f, ret, isGoodEqual)
			r.check(ok, rule, funcKey(f), p.Pos(instrPos(ret)),
				"the 'match' verdict is reachable only through bytes.Equal(sought key, key read from the log for this slot) == true",
				"a key callback can report a match ("+instrString(ret)+") without a full byte comparison of the sought key with the key stored in the log for the slot: colliding hashes / equal lengths would alias different keys")
		}
		if n == 0 {
			r.bad(rule, funcKey(f), p.Pos(f.Pos()), "the key callback never reports a match")
		}
		// side effects of the callback (result captured for the caller, bookkeeping, log writes) happen only for the matching key
		instrsOf(f, func(in ssa.Instruction) {
			what := ""
			switch x := in.(type) {
			case *ssa.Store:
				if _, ok := x.Addr.(*ssa.FreeVar); ok {
					what = "assignment to a variable of the enclosing operation (" + valString(x.Addr) + ")"
				}
			case *ssa.Call:
				k := calleeKey(&x.Call)
				if strings.HasPrefix(k, "(*pogreb.") && k != "(*pogreb.datalog).readKey" && k != "(*pogreb.datalog).readKeyValue" {
					what = "call to " + k
				}
			}
			if what == "" {
				return
			}
			okv := controlledBy(f, in, isGoodEqual)
			r.check(okv, rule, funcKey(f)+":effect-under-match", p.Pos(in.Pos()),
				"side effects of the key callback happen only after the full key comparison succeeded",
				"the key callback performs a side effect ("+what+") before / without the full key comparison having succeeded: a slot that merely collides in hash and length leaves its value, or its bookkeeping, behind for a different key")
		})
	}
}

func isParamOf(v ssa.Value, f *ssa.Function) bool {
	for _, s := range sources(v) {
		if pa, ok := s.(*ssa.Parameter); ok && pa.Parent() == f {
			return true
		}
	}
	return false
}

// storesToField lists the stores into field qual ("pogreb.index.numKeys") in the module.
func storesToField(p *Program, qual string) []*ssa.Store {
	var out []*ssa.Store
	for _, f := range p.ModuleFuncs("") {
		instrsOf(f, func(in ssa.Instruction) {
			if st, ok := in.(*ssa.Store); ok && fieldName(st.Addr) == qual {
				out = append(out, st)
			}
		})
	}
	return out
}

func ruleC01Count(r *Run, p *Program, rule string) {
	stores := storesToField(p, "pogreb.index.numKeys")
	r.universe(rule, len(stores), 3)
	for _, st := range stores {
		f := st.Parent()
		k := funcKey(f)
		// a visitor closure of index.delete / index.put counts as that function
		if top := topFunc(f); top != f && (funcKey(top) == "(*pogreb.index).delete" || funcKey(top) == "(*pogreb.index).put") {
			k = funcKey(top)
		}
		r.fn(k)
		pos := p.Pos(st.Pos())
		delta := 0
		if bo, ok := st.Val.(*ssa.BinOp); ok && isFieldLoad(bo.X, "pogreb.index.numKeys") {
			if c, ok := constInt(bo.Y); ok && c == 1 {
				switch bo.Op {
				case token.ADD:
					delta = 1
				case token.SUB:
					delta = -1
				}
			}
		}
		switch {
		case k == "(*pogreb.index).readMeta" || k == "pogreb.openIndex":
			r.ok(rule, k+":load", pos, "key counter restored from persisted metadata", false)
		case k == "(*pogreb.index).put" && delta == 1:
			// unreachable when the insertion finder reported an existing key; and only after the bucket write succeeded
			notOverwrite := controlledBy(f, st, func(c *Cond) bool {
				if c.Op != token.ILLEGAL || c.Pos {
					return false
				}
				return boolFromCall(c.V, "(*pogreb.index).findInsertionBucket")
			})
			r.check(notOverwrite, rule, k+":increment", pos,
				"numKeys++ is reachable only when findInsertionBucket reported 'not an existing key'",
				"numKeys++ can execute when the key already existed (overwrite counted as a new key): Count drifts above the number of live keys")
			afterWrite := mustPrecede(f, st, func(in ssa.Instruction) bool {
				c, ok := in.(*ssa.Call)
				return ok && calleeKey(&c.Call) == "(*pogreb.slotWriter).write"
			})
			r.check(afterWrite, rule, k+":increment-after-write", pos, "numKeys++ only after the slot was written", "numKeys++ can execute without the slot having been written")
		case k == "(*pogreb.index).delete" && delta == -1:
			matched := controlledBy(f, st, func(c *Cond) bool { return chainEdgeClass(c) == "match" })
			r.check(matched, rule, k+":decrement", pos,
				"numKeys-- is reachable only after the key callback matched",
				"numKeys-- can execute without a key match")
			written := mustPrecede(f, st, func(in ssa.Instruction) bool {
				c, ok := in.(*ssa.Call)
				return ok && calleeKey(&c.Call) == "(*pogreb.bucketHandle).write"
			})
			r.check(written, rule, k+":decrement-after-write", pos, "numKeys-- only after the bucket was rewritten", "numKeys-- can execute without the bucket having been rewritten")
		default:
			r.bad(rule, k+":store", pos, "unexpected store to index.numKeys ("+instrString(st)+"): the key counter must move only by +1 on insertion of a new key and -1 on removal")
		}
	}
	// every successful removal decrements: in index.delete, a nil-error return after a match must pass the decrement
	if f := p.Fn("(*pogreb.index).delete"); r.anchor(rule, "(*pogreb.index).delete", f != nil) {
		// the removal may sit in a visitor closure of delete: work in the function that holds the bucket.del call
		var delCalls []ssa.Instruction
		host := f
		for _, g := range append([]*ssa.Function{f}, f.AnonFuncs...) {
			instrsOf(g, func(in ssa.Instruction) {
				if c, ok := in.(*ssa.Call); ok && calleeKey(&c.Call) == "(*pogreb.bucket).del" {
					delCalls = append(delCalls, c)
					host = g
				}
			})
		}
		f = host
		var dec []ssa.Instruction
		for _, st := range stores {
			if st.Parent() == f {
				dec = append(dec, st)
			}
		}
		if r.anchor(rule, "call to (*bucket).del in index.delete", len(delCalls) > 0) {
			w := &Walk{Fn: f, Stop: func(in ssa.Instruction) bool {
				for _, d := range dec {
					if d == in {
						return true
					}
				}
				return false
			}}
			w.From(delCalls...)
			okAll := true
			for _, ret := range returnsOf(f) {
				if w.succ(f, ret) {
					okAll = false
					r.bad(rule, funcKey(f)+":removal-counted", p.Pos(instrPos(ret)), "a slot removal can return success without decrementing numKeys", w.PathTo(p, ret)...)
				}
			}
			if okAll {
				r.ok(rule, funcKey(f)+":removal-counted", p.Pos(f.Pos()), "every successful return after bucket.del passes numKeys--", true)
			}
		}
	}
	// symmetric: in index.put every successful return after an insertion of a new key passes numKeys++
	if f := p.Fn("(*pogreb.index).put"); r.anchor(rule, "(*pogreb.index).put", f != nil) {
		var inc []ssa.Instruction
		for _, st := range stores {
			if st.Parent() == f {
				inc = append(inc, st)
			}
		}
		w := &Walk{Fn: f,
			Stop: func(in ssa.Instruction) bool {
				for _, d := range inc {
					if d == in {
						return true
					}
				}
				return false
			},
			SkipEdge: func(b *ssa.BasicBlock, k int) bool {
				// the "overwriting an existing key" edge
				c := edgeCond(b, k)
				if c == nil || c.Op != token.ILLEGAL || !c.Pos {
					return false
				}
				return boolFromCall(c.V, "(*pogreb.index).findInsertionBucket")
			}}
		w.From()
		okAll := true
		for _, ret := range returnsOf(f) {
			if w.succ(f, ret) {
				okAll = false
				r.bad(rule, funcKey(f)+":insertion-counted", p.Pos(instrPos(ret)), "inserting a new key can return success without incrementing numKeys", w.PathTo(p, ret)...)
			}
		}
		if okAll {
			r.ok(rule, funcKey(f)+":insertion-counted", p.Pos(f.Pos()), "every successful return of an insertion of a new key passes numKeys++", true)
		}
	}
}

// mustPrecede reports whether every path from entry to target passes an instruction satisfying pred.
func mustPrecede(fn *ssa.Function, target ssa.Instruction, pred func(ssa.Instruction) bool) bool {
	w := &Walk{Fn: fn, Stop: pred}
	w.From()
	return !w.Visited[target]
}

// ruleC01OverwriteFlag: in findInsertionBucket the "existing key" flag is true exactly on the match path.
func ruleC01OverwriteFlag(r *Run, p *Program, rule string) {
	f := p.Fn("(*pogreb.index).findInsertionBucket")
	if !r.anchor(rule, "(*pogreb.index).findInsertionBucket", f != nil) {
		return
	}
	r.fn(funcKey(f))
	n := 0
	for _, ret := range returnsOf(f) {
		if isFailureReturn(f, ret) {
			continue
		}
		bv, isConst, found := boolFlagOfReturn(ret)
		if !found {
			continue
		}
		n++
		underMatch := controlledBy(f, ret, func(c *Cond) bool { return chainEdgeClass(c) == "match" })
		switch {
		case underMatch:
			r.check(isConst && bv, rule, funcKey(f)+":flag-on-match", p.Pos(instrPos(ret)),
				"the return on the match path reports 'existing key'", "the return on the key-match path does not report 'existing key': an overwrite would be counted as a new key")
			// the slot handed back is the matching one: slotIdx stored from the loop index of the matched slot is not decidable here
		default:
			r.check(isConst && !bv, rule, funcKey(f)+":flag-off-without-match", p.Pos(instrPos(ret)),
				"a return that is not on the match path reports 'new key'", "a return that is not behind a key match reports 'existing key': a new key would not be counted")
		}
	}
	r.universe(rule, n, 2)
}

// ruleC01SplitOrder: split() must redistribute with the *updated* addressing state and bump numBuckets last.
func ruleC01Split(r *Run, p *Program, rule string) {
	f := p.Fn("(*pogreb.index).split")
	if !r.anchor(rule, "(*pogreb.index).split", f != nil) {
		return
	}
	r.fn(funcKey(f))
	all, root := allNodes(p, f)
	var stSplit, stLevel, stNumBuckets, bucketIndexCalls, writes []Node
	for nd := range all.Reached {
		// only the split's own frame and helpers extracted from it; not the insert/write machinery
		k := funcKey(nd.Ctx.Fn)
		if strings.HasPrefix(k, "(*pogreb.slotWriter).") || strings.HasPrefix(k, "(*pogreb.bucket") || k == "(*pogreb.index).bucketIndex" || k == "(*pogreb.index).createOverflowBucket" {
			continue
		}
		switch x := nd.In.(type) {
		case *ssa.Store:
			switch fieldName(x.Addr) {
			case "pogreb.index.splitBucketIdx":
				stSplit = append(stSplit, nd)
			case "pogreb.index.level":
				stLevel = append(stLevel, nd)
			case "pogreb.index.numBuckets":
				stNumBuckets = append(stNumBuckets, nd)
			}
		case *ssa.Call:
			switch calleeKey(&x.Call) {
			case "(*pogreb.index).bucketIndex":
				bucketIndexCalls = append(bucketIndexCalls, nd)
			case "(*pogreb.slotWriter).write":
				writes = append(writes, nd)
			}
		}
	}
	if !r.anchor(rule, "stores to splitBucketIdx/level/numBuckets and bucketIndex/write calls under split", len(stSplit) > 0 && len(stLevel) > 0 && len(stNumBuckets) > 0 && len(bucketIndexCalls) > 0 && len(writes) >= 2) {
		return
	}
	isIn := func(set []Node) func(n Node) bool {
		return func(n Node) bool {
			for _, s := range set {
				if s == n {
					return true
				}
			}
			return false
		}
	}
	// 1. no store to the addressing state is reachable after a redistribution decision
	w1 := &IPWalk{P: p}
	w1.Run(root, bucketIndexCalls)
	late := false
	for _, s := range append(append([]Node{}, stSplit...), stLevel...) {
		if w1.Reached[s] {
			late = true
			r.bad(rule, funcKey(f)+":addressing-before-redistribution", p.Pos(instrPos(s.In)), "the split pointer / level is updated after slots were already assigned to buckets with bucketIndex(): old and new addressing are mixed within one split")
		}
	}
	// and every bucketIndex call is preceded by the split-pointer increment
	w2 := &IPWalk{P: p, Visit: isIn(stSplit)}
	w2.Run(root, nil)
	pre := true
	for _, c := range bucketIndexCalls {
		if w2.Reached[c] {
			pre = false
			r.bad(rule, funcKey(f)+":addressing-before-redistribution", p.Pos(instrPos(c.In)), "slots are redistributed with bucketIndex() before the split pointer was advanced: every slot maps back to the old bucket")
		}
	}
	if !late && pre {
		r.ok(rule, funcKey(f)+":addressing-before-redistribution", p.Pos(f.Pos()), "splitBucketIdx/level are updated before, and never after, the bucketIndex() calls that redistribute the slots", true)
	}
	// 2. numBuckets is bumped exactly once, by one, after both bucket writes
	for _, s := range stNumBuckets {
		st := s.In.(*ssa.Store)
		bo, ok := st.Val.(*ssa.BinOp)
		one := false
		if ok && bo.Op == token.ADD && isFieldLoad(bo.X, "pogreb.index.numBuckets") {
			if c, ok := constInt(bo.Y); ok && c == 1 {
				one = true
			}
		}
		r.check(one && len(stNumBuckets) == 1, rule, funcKey(f)+":numBuckets+1", p.Pos(instrPos(s.In)), "numBuckets grows by exactly one per split", "numBuckets is not incremented by exactly one, once, per split")
		cnt := 0
		for _, wr := range writes {
			wr := wr
			w3 := &IPWalk{P: p, Visit: func(n Node) bool { return n == wr }}
			w3.Run(root, nil)
			if !w3.Reached[s] {
				cnt++
			}
		}
		r.check(cnt >= 2, rule, funcKey(f)+":numBuckets-after-writes", p.Pos(instrPos(s.In)),
			"numBuckets (the bound of iteration and addressing) is published only after both buckets were written",
			fmt.Sprintf("numBuckets is incremented before both bucket chains were written (%d of %d writes precede it)", cnt, len(writes)))
	}
	// both chains are written completely: through slotWriter.write (previous buckets first), never a bare bucket write
	bare := false
	for nd := range all.Reached {
		if c, ok := nd.In.(*ssa.Call); ok && calleeKey(&c.Call) == "(*pogreb.bucketHandle).write" {
			inWriter := false
			for cx := nd.Ctx; cx != nil; cx = cx.Parent {
				if funcKey(cx.Fn) == "(*pogreb.slotWriter).write" {
					inWriter = true
				}
			}
			if !inWriter {
				bare = true
				r.bad(rule, funcKey(f)+":writes-whole-chain", p.Pos(instrPos(nd.In)), "split writes a bucket directly instead of through slotWriter.write: when the rebuilt chain itself overflowed, its earlier buckets (head bucket in the main file) are never written and keep stale slots and a stale overflow link")
			}
		}
	}
	if !bare {
		r.ok(rule, funcKey(f)+":writes-whole-chain", p.Pos(f.Pos()), "both rebuilt chains are written through slotWriter.write (all filled buckets, then the last)", true)
	}
	// 3. the new bucket is the one just appended to the main file: its offset is the result of main.extend
	var ext []*ssa.Call
	deepInstrs(p, f, func(in ssa.Instruction) {
		if k := funcKey(in.Parent()); k == "(*pogreb.index).createOverflowBucket" {
			return
		}
		if c, ok := in.(*ssa.Call); ok && calleeKey(&c.Call) == "(*pogreb.file).extend" {
			ext = append(ext, c)
		}
	})
	r.check(len(ext) == 1, rule, funcKey(f)+":one-extend", p.Pos(f.Pos()), "split appends exactly one bucket to the main index file", fmt.Sprintf("split calls file.extend %d times (want 1)", len(ext)))
	// 4. the old overflow buckets are freed only after the walk finished (not while the chain is still being read)
	var frees []ssa.Instruction
	deepInstrs(p, f, func(in ssa.Instruction) {
		c, ok := in.(*ssa.Call)
		if !ok {
			return
		}
		if calleeKey(&c.Call) == "(*pogreb.index).freeOverflowBucket" {
			frees = append(frees, c)
			return
		}
		// by what it does: a call (made by split itself) of a function that appends to the free list
		if g := c.Call.StaticCallee(); g != nil && g.Blocks != nil && c.Parent() == f {
			for _, st := range storesToField(p, "pogreb.index.freeBucketOffs") {
				if st.Parent() != g {
					continue
				}
				if ac, ok := strip(st.Val).(*ssa.Call); ok {
					if b, ok := ac.Call.Value.(*ssa.Builtin); ok && b.Name() == "append" {
						frees = append(frees, c)
					}
				}
			}
		}
	})
	if r.anchor(rule, "call to freeOverflowBucket in split", len(frees) > 0) {
		for _, fr := range frees {
			inLoop := inCycle(fr.Block())
			r.check(!inLoop, rule, funcKey(f)+":free-after-walk", p.Pos(instrPos(fr)),
				"overflow buckets of the old chain are released after the chain walk, so slotWriter.insert cannot reuse a bucket that is still to be read",
				"overflow buckets are released inside the chain walk: insert() may reuse and overwrite a bucket of the chain that has not been read yet")
		}
	}
}

// mustPrecedeInstr: every path from entry to target passes instruction pre.
func mustPrecedeInstr(fn *ssa.Function, target, pre ssa.Instruction) bool {
	return mustPrecede(fn, target, func(in ssa.Instruction) bool { return in == pre })
}

// ruleC01Addressing: every chain walk starts at bucketIndex(hash) of the hash that is compared in the walk.
func ruleC01Addressing(r *Run, p *Program, rule string) {
	n := 0
	for _, f := range p.ModuleFuncs("") {
		instrsOf(f, func(in ssa.Instruction) {
			c, ok := in.(*ssa.Call)
			if !ok || !isNewChainIterCall(&c.Call) || len(c.Call.Args) != 2 {
				return
			}
			n++
			r.fn(funcKey(f))
			arg := c.Call.Args[1]
			// a walk extracted into a helper gets its start bucket as a parameter: judge what every caller passes
			if pa, ok := strip(arg).(*ssa.Parameter); ok && funcKey(f) != "(*pogreb.ItemIterator).fetchItems" {
				if args := callSiteArgs(p, f, paramIndex(pa)); len(args) >= 1 {
					for _, a := range args {
						af := a.(interface{ Parent() *ssa.Function }).Parent()
						for af.Parent() != nil && false {
							af = af.Parent()
						}
						judgeStart(r, p, rule, af, a, funcKey(af)+"->"+funcKey(c.Parent())+"->newBucketIterator", p.Pos(c.Pos()))
					}
					return
				}
			}
			judgeStart(r, p, rule, f, arg, funcKey(c.Parent())+"->newBucketIterator", p.Pos(c.Pos()))
		})
	}
	r.universe(rule, n, 3)
	// the slot stored by Put carries the hash that addressed the chain and the location datalog.put returned
	if f := p.Fn("(*pogreb.DB).Put"); r.anchor(rule, "(*pogreb.DB).Put", f != nil) {
		checkSlotLiteral(r, p, rule, f, "(*pogreb.datalog).put")
	}
}

// judgeStart decides whether `arg`, the bucket a chain walk in f starts at, is the bucket of the key's hash (or the
// split bucket in split, or the scan position in the iterator).
func judgeStart(r *Run, p *Program, rule string, f *ssa.Function, arg ssa.Value, construct, pos string) {
	{
		{
			top := f
			for top.Parent() != nil {
				top = top.Parent()
			}
			var viaBucketIndex *ssa.Call
			for _, s := range sources(arg) {
				if bc, ok := s.(*ssa.Call); ok && calleeKey(&bc.Call) == "(*pogreb.index).bucketIndex" {
					viaBucketIndex = bc
				}
			}
			switch {
			case viaBucketIndex != nil:
				h := viaBucketIndex.Call.Args[1]
				// the hash must be what the walk compares slots against / what gets stored: accept DB.hash(key) results,
				// hash parameters and the hash field of the slot being inserted.
				okSrc := false
				desc := ""
				for _, s := range sources(h) {
					switch x := s.(type) {
					case *ssa.Parameter:
						if strings.Contains(strings.ToLower(x.Name()), "hash") || x.Name() == "h" {
							okSrc, desc = true, "hash parameter "+x.Name()
						}
					case *ssa.Call:
						if calleeKey(&x.Call) == "(*pogreb.DB).hash" {
							okSrc, desc = true, "DB.hash(key)"
						}
					case *ssa.Field:
						if fieldName(x) == "pogreb.slot.hash" {
							okSrc, desc = true, "slot.hash of the slot being inserted"
						}
					case *ssa.UnOp:
						if isSlotFieldLoad(x, "hash") {
							okSrc, desc = true, "slot.hash of the slot being inserted"
						}
					}
				}
				r.check(okSrc, rule, construct, pos, "the walk starts at bucketIndex("+desc+")", "the chain walk starts at bucketIndex() of a value that is not the key hash ("+valString(h)+")")
			case funcKey(top) == "(*pogreb.index).split":
				okSrc := false
				for _, s := range sources(arg) {
					if isFieldLoad(s, "pogreb.index.splitBucketIdx") {
						okSrc = true
					}
				}
				r.check(okSrc, rule, construct, pos, "split walks the chain of the split bucket (old splitBucketIdx)", "split walks a chain other than the split bucket's")
			case funcKey(top) == "(*pogreb.ItemIterator).fetchItems":
				_, isParam := strip(arg).(*ssa.Parameter)
				r.check(isParam, rule, construct, pos, "the scan walks the chain of the bucket index it was given", "the scan does not walk the bucket index it was given")
			default:
				r.bad(rule, construct, pos, "a chain walk starts at a bucket that is not derived from bucketIndex(hash): "+valString(arg))
			}
		}
	}
}

// checkSlotLiteral verifies the slot built in Put: hash = DB.hash(key), segmentID/offset = results 0/1 of the log append.
func checkSlotLiteral(r *Run, p *Program, rule string, f *ssa.Function, appendKey string) {
	r.fn(funcKey(f))
	want := map[string]string{}
	got := map[string]string{}
	instrsOf(f, func(in ssa.Instruction) {
		st, ok := in.(*ssa.Store)
		if !ok {
			return
		}
		fn := fieldName(st.Addr)
		if !strings.HasPrefix(fn, "pogreb.slot.") {
			return
		}
		fld := strings.TrimPrefix(fn, "pogreb.slot.")
		desc := "?"
		for _, s := range sources(st.Val) {
			if c, comp := valueComponent(s); c != nil {
				desc = calleeKey(&c.Call) + comp
				if comp == "#0" && c.Call.Signature().Results().Len() == 1 {
					desc = calleeKey(&c.Call) + "#-1"
				}
				switch locKind(s, 0) {
				case "id":
					desc = calleeKey(&c.Call) + ":segment-id"
				case "off":
					desc = calleeKey(&c.Call) + ":offset"
				}
			} else if cv, ok := s.(*ssa.Convert); ok {
				if c, ok := cv.X.(*ssa.Call); ok {
					if b, ok := c.Call.Value.(*ssa.Builtin); ok && b.Name() == "len" {
						desc = "len(" + valString(c.Call.Args[0]) + ")"
					}
				}
			}
		}
		got[fld] = desc
	})
	want["hash"] = "(*pogreb.DB).hash#-1"
	want["segmentID"] = appendKey + ":segment-id"
	want["offset"] = appendKey + ":offset"
	want["keySize"] = "len(key)"
	want["valueSize"] = "len(value)"
	for _, fld := range []string{"hash", "segmentID", "offset", "keySize", "valueSize"} {
		r.check(got[fld] == want[fld], rule, funcKey(f)+":slot."+fld, p.Pos(f.Pos()),
			"slot."+fld+" = "+want[fld], "the index slot written by Put has "+fld+" = "+got[fld]+", want "+want[fld]+": the slot would not be found again / would point at the wrong record")
	}
}

// isNewChainIterCall: constructor of the chain iterator: a method of index taking a bucket number and returning a pointer to
// the type whose method is the chain-iteration step.
func isNewChainIterCall(c *ssa.CallCommon) bool {
	f := c.StaticCallee()
	if f == nil || f.Pkg == nil || f.Pkg.Pkg.Path() != modPath {
		return false
	}
	// a method of *index taking the bucket number, or a free function taking (*index, bucket number)
	recvT := ""
	nparams := f.Signature.Params().Len()
	if f.Signature.Recv() != nil {
		recvT = typeName(f.Signature.Recv().Type())
	} else if nparams >= 1 {
		recvT = typeName(f.Signature.Params().At(0).Type())
		nparams--
	}
	if f.Signature.Results().Len() != 1 || nparams != 1 {
		return false
	}
	rt := f.Signature.Results().At(0).Type()
	ms := f.Prog.MethodSets.MethodSet(rt)
	for i := 0; i < ms.Len(); i++ {
		if isChainNextFn(f.Prog.MethodValue(ms.At(i))) {
			return recvT == "*pogreb.index"
		}
	}
	return false
}

// callSiteArgs returns the values passed for parameter idx of f at its static call sites in the module.
func callSiteArgs(p *Program, f *ssa.Function, idx int) []ssa.Value {
	var out []ssa.Value
	for _, g := range p.ModuleFuncs("") {
		instrsOf(g, func(in ssa.Instruction) {
			if c, ok := in.(*ssa.Call); ok && c.Call.StaticCallee() == f && idx < len(c.Call.Args) {
				if v, ok := c.Call.Args[idx].(interface{ Parent() *ssa.Function }); ok && v != nil {
					out = append(out, c.Call.Args[idx])
				}
			}
		})
	}
	return out
}

func topFunc(f *ssa.Function) *ssa.Function {
	for f.Parent() != nil {
		f = f.Parent()
	}
	return f
}

// staticCallersOf lists the module functions containing a static call (or defer/go) of g.
func staticCallersOf(p *Program, g *ssa.Function) []*ssa.Function {
	seen := map[*ssa.Function]bool{}
	var out []*ssa.Function
	// refersTo: h is g, or a synthetic wrapper (bound method, thunk) around g
	refersTo := func(h *ssa.Function) bool {
		if h == g {
			return true
		}
		if h.Synthetic == "" || h.Blocks == nil {
			return false
		}
		hit := false
		instrsOf(h, func(in ssa.Instruction) {
			if ci, ok := in.(ssa.CallInstruction); ok && ci.Common().StaticCallee() == g {
				hit = true
			}
		})
		return hit
	}
	for _, f := range p.ModuleFuncs("") {
		instrsOf(f, func(in ssa.Instruction) {
			if seen[f] {
				return
			}
			if ci, ok := in.(ssa.CallInstruction); ok && ci.Common().StaticCallee() == g {
				seen[f] = true
				out = append(out, f)
				return
			}
			// g taken as a value (a method value stored in a hook, a callback argument): whoever takes it may call it
			for _, op := range in.Operands(nil) {
				if h, ok := (*op).(*ssa.Function); ok && refersTo(h) {
					if ci, isCall := in.(ssa.CallInstruction); isCall && ci.Common().Value == *op {
						continue
					}
					seen[f] = true
					out = append(out, f)
					return
				}
			}
		})
	}
	return out
}

// onlyUnder reports whether every static call chain into f comes from the function with key root (f itself may be root;
// closures count as their parent; bound 3).
func onlyUnder(p *Program, f *ssa.Function, root string, d int) bool {
	for f.Parent() != nil {
		f = f.Parent()
	}
	if funcKey(f) == root {
		return true
	}
	if d > 3 {
		return false
	}
	cs := staticCallersOf(p, f)
	if len(cs) == 0 {
		return false
	}
	for _, c := range cs {
		if !onlyUnder(p, c, root, d+1) {
			return false
		}
	}
	return true
}

// ruleC01ChainLinks: a bucket chain only ever grows at its tail, and overflow buckets are released only by a split
// (which rebuilds the whole chain): bucket.next is written only by decoding and by linking a bucket that
// createOverflowBucket just handed out; the free list grows only under split and shrinks only in createOverflowBucket.
// A chain that is cut or re-linked anywhere else loses every key stored behind the cut.
func ruleC01ChainLinks(r *Run, p *Program, rule string) {
	stores := storesToField(p, "pogreb.bucket.next")
	r.universe(rule, len(stores), 2)
	for _, st := range stores {
		f := st.Parent()
		r.fn(funcKey(f))
		construct := funcKey(f) + ":store(bucket.next)"
		// decoding
		if strings.HasSuffix(funcKey(f), ".UnmarshalBinary") {
			r.ok(rule, construct, p.Pos(st.Pos()), "bucket.next is decoded from the bucket's bytes", false)
			continue
		}
		// link to a bucket that createOverflowBucket returned in this function
		linked := false
		for _, s := range sources(st.Val) {
			ld, ok := strip(s).(*ssa.UnOp)
			if !ok || ld.Op != token.MUL || fieldName(ld.X) != "pogreb.bucketHandle.offset" {
				continue
			}
			fa := ld.X.(*ssa.FieldAddr)
			if c, _ := callResult(fa.X); c != nil && calleeKey(&c.Call) == "(*pogreb.index).createOverflowBucket" {
				linked = true
			}
		}
		r.check(linked, rule, construct, p.Pos(st.Pos()),
			"bucket.next is set to the offset of a bucket createOverflowBucket just handed out (the chain grows at its tail)",
			"bucket.next is overwritten with something other than a freshly created overflow bucket ("+instrString(st)+"): a chain that is cut or re-linked outside a split loses every key stored behind that point (Get/Has/Items miss them while Count still includes them)")
	}
	// the free list
	fl := storesToField(p, "pogreb.index.freeBucketOffs")
	r.universe(rule+":free-list", len(fl), 3)
	for _, st := range fl {
		f := st.Parent()
		r.fn(funcKey(f))
		construct := funcKey(f) + ":store(index.freeBucketOffs)"
		v := strip(st.Val)
		switch x := v.(type) {
		case *ssa.Slice:
			// pop from the front: only in createOverflowBucket
			r.check(funcKey(f) == "(*pogreb.index).createOverflowBucket" && isFieldLoad(x.X, "pogreb.index.freeBucketOffs"), rule, construct, p.Pos(st.Pos()),
				"the free list shrinks only where createOverflowBucket hands the bucket out", "the free list of overflow buckets is re-sliced outside createOverflowBucket")
			continue
		case *ssa.Call:
			if b, ok := x.Call.Value.(*ssa.Builtin); ok && b.Name() == "append" && len(x.Call.Args) > 0 && isFieldLoad(x.Call.Args[0], "pogreb.index.freeBucketOffs") {
				r.check(onlyUnder(p, f, "(*pogreb.index).split", 0), rule, construct, p.Pos(st.Pos()),
					"overflow buckets are put on the free list only under index.split, which has just emptied the whole chain they belonged to",
					"an overflow bucket is put on the free list outside index.split ("+funcKey(f)+" is reachable from elsewhere): a bucket that may still be linked from a chain, or still link to the rest of it, is handed out again and the keys behind it are lost or mixed with another chain's")
				continue
			}
		}
		if strings.HasSuffix(funcKey(f), ".readMeta") || funcKey(f) == "pogreb.openIndex" {
			r.ok(rule, construct, p.Pos(st.Pos()), "the free list is restored from persisted metadata", false)
			continue
		}
		r.bad(rule, construct, p.Pos(st.Pos()), "unexpected store to index.freeBucketOffs ("+instrString(st)+")")
	}
}
