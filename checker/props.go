package main

var commonAssumptions = []string{
	"the Go type checker and go/ssa (x/tools v0.29.0) represent the program faithfully",
	"rule tables (anchors, accepted idioms) were confirmed by reading the tree; an unresolved anchor or an unclassified idiom fails the check (undecided) instead of passing",
	"static analysis only: no pogreb code is executed; the clauses listed as 'not decided' in DESIGN.md section 5 are outside this check",
}

func init() {
	register("C01", &propDef{
		Rules: []ruleDef{
			{"C01.chain-exit", ruleC01ChainExit, ""},
			{"C01.match-equal", ruleC01MatchEqual, ""},
			{"C01.count", ruleC01Count, ""},
			{"C01.overwrite-flag", ruleC01OverwriteFlag, ""},
			{"C01.split", ruleC01Split, ""},
			{"C01.addressing", ruleC01Addressing, ""},
			{"C01.chain-links", ruleC01ChainLinks, ""},
			{"C01.fresh-results", ruleC14Fresh, ""},
			{"C01.addressing-writers", ruleAddressingWriters, ""},
			{"C01.mapping", ruleC17, ""},
			{"C01.key-limits", ruleC16Consts, ""},
			{"C01.scan-cursor", ruleC11Cursor, ""},
			{"C01.size-mirror", ruleC04SizeMirror, ""},
			{"C01.array-bounds", ruleArrayBounds, ""},
			{"C01.slot-loop", ruleSlotLoopExits, ""},
			{"C01.guarded", ruleGuarded, ""},
			{"C01.kernel", ruleKernelShapes("(*pogreb.index).bucketIndex", "(*pogreb.bucket).del", "(*pogreb.slotWriter).insert", "(*pogreb.slotWriter).write", "(*pogreb.index).createOverflowBucket", "(*pogreb.bucketIterator).next", "(*pogreb.index).newBucketIterator", "(pogreb.slot).kvSize", "(*pogreb.datalog).readKey", "(*pogreb.datalog).readKeyValue"), ""},
		},
		Explanation: "Decides structural necessary conditions of map semantics of the hash index, for all key sets and hash layouts at once: (chain-exit) no lookup/insert/delete/scan/compaction walk of a bucket chain can end before end-of-chain, an error or a key/record match; (match-equal) a key callback reports a match only behind bytes.Equal(sought key, key stored in the log for that slot); (count, overwrite-flag) index.numKeys moves +1 exactly on insertion of a new key and -1 exactly on a removal, after the bucket write; (split) a split updates the addressing state before redistributing, publishes numBuckets after both writes, frees old overflow buckets after the walk; (addressing) every walk starts at bucketIndex(hash of the key) and Put stores the slot with that hash and the location the log append returned. (chain-links) bucket.next is written only by decoding and by linking a bucket createOverflowBucket just handed out, and overflow buckets are put on the free list only under split, so no chain is cut or re-linked while it holds keys; (size-mirror, guarded; shared) the cached file length that bucket offsets are derived from follows every length-changing call on success paths only, and the writers hold DB.mu exclusively. NOT decided: equality with a reference map for all histories, the redistribution arithmetic itself, the hash function.",
		Assumptions: commonAssumptions,
	})
}

func init() {
	register("C06", &propDef{
		Rules: []ruleDef{
			{"C06.sync-reaches-fsync", ruleC06SyncReaches, ""},
			{"C06.sequence-monotonic", ruleC03SequenceMonotonic, ""},
			{"C06.error-fatal", ruleErrorFatal("(*pogreb.DB).Sync", "(*pogreb.DB).Put", "(*pogreb.DB).Delete"), "primary"},
			{"C06.sync-mode", ruleSyncMode, ""},
			{"C06.guarded", ruleGuarded, ""},
			{"C06.sync-error-fatal", ruleSyncErrorFatal, ""},
			{"C06.seal-sync", ruleC06SealSync, ""},
			{"C06.older-first", ruleC03OlderFirst, ""},
			{"C06.unlink-after-durable", ruleC06Unlink, ""},
			{"C06.errs", ruleErrs, ""},
			{"C06.recover-syncs", ruleC06RecoverSyncs, ""},
			{"C06.size-mirror", ruleC04SizeMirror, ""},
			{"C06.segment-end", ruleC03CompactComplete, ""},
			{"C06.close-all-segments", ruleCloseOrder, ""},
		},
		Explanation: "Under the stated power-loss model, decides three structural necessary conditions over all paths: (sync-reaches-fsync) DB.Sync, and Put/Delete in sync-after-every-write mode, cannot return success without File.Sync on the current segment, except through the test 'current segment is sealed'; OS-backed File implementations resolve Sync to (*os.File).Sync; (seal-sync) a segment is marked full only after a successful File.Sync of that same segment, so nothing is left unflushed when the log moves on; (unlink-after-durable) in compaction every path from a record copy to FileSystem.Remove passes File.Sync of the current segment. (segment-end, close-all-segments; shared) a short header read is not a clean end of segment, and Close visits every segment of the table (a gap in the ids does not end the loop). NOT decided: the contents of each power-loss image; that fsync honours its contract.",
		Assumptions: commonAssumptions,
	})
	register("C09", &propDef{
		Rules: []ruleDef{
			{"C09.sync-before-close", ruleC09SyncBeforeClose, ""},
			{"C09.sequence-monotonic", ruleC03SequenceMonotonic, ""},
			{"C09.open-order", ruleOpenOrder, ""},
			{"C09.error-fatal", ruleErrorFatal("(*pogreb.DB).Close"), "primary"},
			{"C09.sync-error-fatal", ruleSyncErrorFatal, ""},
			{"C09.close-not-internal", ruleCloseNotInternal, ""},
			{"C09.commit-last", ruleCloseOrder, ""},
			{"C09.errs", ruleErrs, ""},
			{"C09.meta-symmetry", ruleC02MetaSymmetry, ""},
			{"C09.older-first", ruleC03OlderFirst, ""},
			{"C09.tail-handling", ruleC08Gates, ""},
		},
		Explanation: "Decides, on the call-string-cloned interprocedural graph of DB.Close: (sync-before-close) every fs.File.Close of a written file that lies on a success path of DB.Close is preceded on every path by File.Sync on the same file (same access path through the call string) with no write in between; (commit-last) writeMeta, datalog.close, index.close precede LockFile.Unlock on every path, every success return passes Unlock, nothing touches the file system after Unlock, only DB.Close calls Unlock, and datalog.close skips only nil segments. (sync-before-close, extended) DB.mu is not released between a file's last Sync and its Close; (older-first; shared) the ordering function of segments compares the sequence ids of its two arguments. NOT decided: that every power-loss image after Close reopens to the closed contents.",
		Assumptions: commonAssumptions,
	})
}

func init() {
	register("C15", &propDef{
		Rules: []ruleDef{
			{"C15.name-families", ruleC15NameFamilies, ""},
			{"C15.seal-sites", ruleSealSites, ""},
			{"C15.mapping", ruleC17, ""},
			{"C15.worker-tickers", ruleWorkerTickers, ""},
			{"C15.readdir-order", ruleReadDirOrder, ""},
			{"C15.backup-closes-files", ruleBackupClosesFiles, ""},
			{"C15.segment-id-scan", ruleSegmentIDScan, ""},
			{"C15.remove-only-compaction", ruleRemoveSegmentOnlyCompaction, ""},
			{"C15.forget-unlink-atomic", ruleForgetUnlinkAtomic, ""},
			{"C15.curseg-live", ruleC15CurSegLive, ""},
			{"C15.remove-order", ruleC15RemoveOrder, ""},
			{"C15.thresholds", ruleC15Thresholds, ""},
			{"C15.close-all-segments", ruleCloseOrder, ""},
		},
		Explanation: "Decides: (name-families) by abstract evaluation of every file-name expression reaching FileSystem.OpenFile/Remove/Rename through the call string, every removed name family is one the package creates, and every per-segment family that is created (segment file, its .pmt side file) is removed by removeSegment; recovery backups are removed; (curseg-live) every I/O through datalog.curSeg is behind the test '!curSeg.meta.Full' or a swapSegment, so a current segment that compaction sealed, closed and removed is never used; (remove-order) a segment is forgotten and closed before its files are unlinked, compact() returns nil only after removeSegment, Compact counts a segment only after compact() returned nil. (seal-sites) segments are marked full only below writeRecord, Compact/compact and recover; (forget-unlink-atomic) a segment's slot is released and its files are unlinked in one exclusive section of DB.mu; (readdir-order, skip-continues) loops over a directory listing and over the segment table skip what they may skip and go on: they are left only at their bound or by failing. NOT decided: boundedness of directory size, descriptors and mappings over time.",
		Assumptions: commonAssumptions,
	})
	register("C04", &propDef{
		Rules: []ruleDef{
			{"C04.size-mirror", ruleC04SizeMirror, ""},
			{"C04.unlock-owner", ruleCloseOrder, ""},
			{"C04.open-order", ruleOpenOrder, ""},
			{"C04.error-fatal", ruleErrorFatal("pogreb.Open"), "primary"},
			{"C04.close-not-internal", ruleCloseNotInternal, ""},
			{"C04.remove-only-compaction", ruleRemoveSegmentOnlyCompaction, ""},
			{"C04.older-first", ruleC03OlderFirst, ""},
			{"C04.tail-handling", ruleC08Gates, ""},
			{"C04.segment-end", ruleC03CompactComplete, ""},
			{"C04.seal-after-replay", ruleC04SealAfterReplay, ""},
			{"C04.sequence-monotonic", ruleC03SequenceMonotonic, ""},
			{"C04.recover-syncs", ruleC06RecoverSyncs, ""},
			{"C04.replay-meta", ruleC04ReplayMeta, ""},
			{"C04.swap-never-sealed", ruleC05SwapNeverSealed, ""},
			{"C04.curseg-live", ruleC15CurSegLive, ""},
			{"C04.rollover-through-swap", ruleC04Rollover, ""},
		},
		Explanation: "Decides: (size-mirror) every length-changing call (Write, WriteAt, Truncate) made on the fs.File embedded in a pogreb.file assigns file.size of the same file on each success path (or is the reviewed in-place bucket rewrite / the function-local gob writer), so the in-memory append position cannot diverge from the file length after recovery truncates a torn tail; (unlock-owner) only a completed DB.Close releases the lock file, after all other steps, so an interrupted recovery is redone. NOT decided: contents along chains of crash images; idempotence of recovery as such.",
		Assumptions: commonAssumptions,
	})
	register("C19", &propDef{
		Rules: []ruleDef{
			{"C19.alloc-bound", ruleC19AllocBound, ""},
			{"C19.tail-handling", ruleC08Gates, ""},
			{"C19.segment-end", ruleC03CompactComplete, ""},
			{"C19.layout", ruleRecordLayout, ""},
			{"C19.remove-only-compaction", ruleRemoveSegmentOnlyCompaction, ""},
			{"C19.logger-non-nil", ruleLoggerNonNil, ""},
		},
		Explanation: "Decides with a forward value-flow (taint) analysis over every function reachable from recovery and segment iteration: no make/Grow/CopyN is sized by a value decoded from file bytes (binary.LittleEndian.UintN and arithmetic on it) unless the allocation is control dependent on a comparison 'tainted <= untainted bound' (the file length or a constant). The guard must contain the value that sizes the allocation as a term of a sum of non-negative quantities (a bound on another decoded field does not count). (layout; shared) the record type is taken from bit 31 of the value-size field and masked out before the record size is computed. NOT decided: total work/time of recovery; allocations inside encoding/gob (metadata is discarded by recovery).",
		Assumptions: commonAssumptions,
	})
}

func init() {
	register("C07", &propDef{
		Rules: []ruleDef{
			{"C07.guarded", ruleGuarded, ""},
			{"C07.chain-exit", ruleC01ChainExit, ""},
			{"C07.liveness", ruleC05Liveness, ""},
			{"C07.match-equal", ruleC01MatchEqual, ""},
			{"C07.one-section", ruleOneSection, ""},
			{"C07.balanced", ruleBalanced, ""},
			{"C07.fs-readers-pure", ruleFSReadersPure, ""},
			{"C07.scan-cursor", ruleC11Cursor, ""},
			{"C07.count", ruleC01Count, ""},
			{"C07.copy-inside-lock", ruleC14CopyInsideLock, ""},
			{"C07.copied", ruleC14NoAliasOut, ""},
			{"C07.no-retained-locations", ruleNoRetainedLocations, "primary"},
		},
		Explanation: "Decides only the critical-section structure linearizability needs, with a path-sensitive lockset analysis on the call-string-cloned interprocedural graph of every API entry: (guarded) every read/write of index, datalog, segment-meta and file-size state and every fs.File call on a shared index/segment file reachable from an entry is made with DB.mu held in the required mode; (one-section) Put, Delete, Get, GetAppend, Has, Count, Sync and one iterator refill never release DB.mu and take it again; (balanced) every entry returns with the lockset it was entered with. (no-retained-locations) no long-lived state can hold an index slot across critical sections; every store into memory reachable from the handle holds DB.mu exclusively; (copied; shared) what a scan queues and returns are private copies, not file-system memory. NOT decided: the existence of a linearization for every history.",
		Assumptions: append([]string{"guarded-state table of DESIGN.md 2.2 (fields of index, datalog, segmentMeta, file.size; I/O on index and segment files)"}, commonAssumptions...),
	})
	register("C10", &propDef{
		Rules: []ruleDef{
			{"C10.guarded", ruleGuarded, ""},
			{"C10.one-section", ruleOneSection, ""},
			{"C10.scan-cursor", ruleC11Cursor, ""},
			{"C10.balanced", ruleBalanced, ""},
			{"C10.lock-order", ruleLockOrder, ""},
			{"C10.goroutine", ruleGoroutine, ""},
			{"C10.ticker-positive", ruleTickerPositive, ""},
			{"C10.array-bounds", ruleArrayBounds, ""},
			{"C10.fs-calls", ruleFSCalls, ""},
			{"C10.fs-readers-pure", ruleFSReadersPure, ""},
			{"C10.copy-inside-lock", ruleC14CopyInsideLock, ""},
			{"C10.no-alias-out", ruleC14NoAliasOut, ""},
			{"C10.no-retained-locations", ruleNoRetainedLocations, "primary"},
		},
		Explanation: "Decides the lock discipline race- and deadlock-freedom need: (guarded) as C07; (balanced) no lock leaked or double-released on any path, error paths included; (lock-order) the held->acquired graph over maintenanceMu, ItemIterator.mu, DB.mu is acyclic, no re-entrant acquisition, no WaitGroup.Wait/channel operation while a lock is held; (goroutine) the only goroutine is registered with the WaitGroup before it starts, defers Done, leaves its loop on ctx.Done(), and Close cancels it, waits, then locks; (fs-calls) directory operations on the database's FileSystem are made under DB.mu; (fs-readers-pure) File methods documented as thread-safe (Slice, ReadAt, Stat) do not write receiver state. (no-alias-out, no-retained-locations) no File.Slice memory and no index slot is kept across critical sections; every store into memory reachable from the handle holds DB.mu exclusively; (ticker-positive) every time.NewTicker is reached only where its interval is known to be > 0 (a non-positive interval panics in the worker goroutine). NOT decided: absence of panics/faults in general (bounds checks are not provable here), races on state outside the tables, progress.",
		Assumptions: commonAssumptions,
	})
}

func init() {
	register("C14", &propDef{
		Rules: []ruleDef{
			{"C14.no-alias-out", ruleC14NoAliasOut, ""},
			{"C14.no-retain-in", ruleC14NoRetainIn, ""},
			{"C14.guarded", ruleGuarded, ""},
			{"C14.one-section", ruleOneSection, ""},
			{"C14.returned-owned", ruleC14ReturnedOwned, ""},
			{"C14.copy-inside-lock", ruleC14CopyInsideLock, ""},
			{"C14.fresh-results", ruleC14Fresh, ""},
		},
		Explanation: "Decides, within a whole-package field-based value-flow model (slicing, phis, tuples, struct fields, closure cells, parameters/returns through the call graph with VTA-resolved callbacks; append/copy semantics modelled; package pogreb uses neither unsafe nor reflection): (no-alias-out) memory returned by fs.File.Slice never reaches a result of an exported function and is never stored in any struct field; (no-retain-in) byte-slice parameters of exported functions are never stored in a struct field or package variable, encodeRecord returns a fresh buffer, fs Write/WriteAt implementations do not keep their buffer; (copy-inside-lock) every read of Slice memory (cloneBytes, append, copy, bytes.Equal) happens with DB.mu held on every path from every API entry. What is assumed is the flow model, not a sample of histories. (returned-owned) per allocation site, a slice that can reach an API result reaches no field of a long-lived struct, no package variable and no external call that may keep it (reviewed exception: the iterator's queue of cloned items); (no-retain-in, extended) a caller's slice, or the address of the variable holding it, is handed outside the module only to functions known to read it.",
		Assumptions: append([]string{"value-flow model: no aliasing through third-party code; append copies byte elements; copy/bytes.Equal/hashing only consume"}, commonAssumptions...),
	})
}

func init() {
	register("C05", &propDef{
		Rules: []ruleDef{
			{"C05.seal-first", ruleC05SealFirst, ""},
			{"C05.pick-seal-atomic", ruleC05PickSealAtomic, ""},
			{"C05.swap-never-sealed", ruleC05SwapNeverSealed, ""},
			{"C05.no-append-to-sealed", ruleC15CurSegLive, ""},
			{"C05.liveness", ruleC05Liveness, ""},
			{"C05.compact-complete", ruleC03CompactComplete, ""},
			{"C05.older-first", ruleC03OlderFirst, ""},
			{"C05.chain-exit", ruleC01ChainExit, ""},
			{"C05.array-bounds", ruleArrayBounds, ""},
			{"C05.slot-loop", ruleSlotLoopExits, ""},
			{"C05.close-all-segments", ruleCloseOrder, ""},
			{"C05.guarded", ruleGuarded, ""},
			{"C05.error-fatal", ruleErrorFatal("(*pogreb.DB).Compact"), "primary"},
			{"C05.remove-only-compaction", ruleRemoveSegmentOnlyCompaction, ""},
			{"C05.seal-sites", ruleSealSites, ""},
			{"C05.no-retained-locations", ruleNoRetainedLocations, "primary"},
			{"C05.balanced", ruleBalanced, ""},
			{"C05.sequence-monotonic", ruleC03SequenceMonotonic, ""},
			{"C05.seal-after-replay", ruleC04SealAfterReplay, ""},
			{"C05.stop-on-error", ruleC05StopOnError, ""},
			{"C05.replay-meta", ruleC04ReplayMeta, ""},
		},
		Explanation: "Decides the invariants that make per-record compaction safe under interleaved writers, over all paths: the source is sealed under the exclusive lock before it is read, the log never appends to a sealed segment and swapSegment never installs one; a record is judged live on (hash, segment, offset), copied and the slot repointed to exactly the location the copy returned, only after a successful copy, all inside sections of DB.mu held exclusively (guarded); the source disappears only after the iterator reported a clean end of segment; a segment with delete records is compacted only together with all older ones, oldest first; the compaction walk of a bucket chain cannot end early. (no-retained-locations) no state reachable from *DB, *ItemIterator or a package variable can hold an index slot across critical sections; (guarded, extended) every store into memory reachable from the handle holds DB.mu exclusively; (older-first, extended) every pick passed the 'holds delete records' test and the picked order reaches the loop unchanged; NOT decided: equality of contents before/during/after compaction for all schedules.",
		Assumptions: commonAssumptions,
	})
	register("C03", &propDef{
		Rules: []ruleDef{
			{"C03.lock-brackets", ruleCloseOrder, ""},
			{"C03.open-order", ruleOpenOrder, ""},
			{"C03.error-fatal", ruleErrorFatal("(*pogreb.DB).Put", "(*pogreb.DB).Delete", "(*pogreb.DB).Compact"), "primary"},
			{"C03.close-not-internal", ruleCloseNotInternal, ""},
			{"C03.remove-only-compaction", ruleRemoveSegmentOnlyCompaction, ""},
			{"C03.single-write", ruleC03SingleWrite, ""},
			{"C03.compact-complete", ruleC03CompactComplete, ""},
			{"C03.copy-before-repoint", ruleC05Liveness, ""},
			{"C03.older-first", ruleC03OlderFirst, ""},
			{"C03.forget-unlink-atomic", ruleForgetUnlinkAtomic, ""},
			{"C03.pick-seal-atomic", ruleC05PickSealAtomic, ""},
			{"C03.sequence-monotonic", ruleC03SequenceMonotonic, ""},
			{"C03.write-ahead", ruleC03WriteAhead, ""},
			{"C03.tail-handling", ruleC08Gates, ""},
			{"C03.size-mirror", ruleC04SizeMirror, ""},
			{"C03.seal-after-replay", ruleC04SealAfterReplay, ""},
			{"C03.stop-on-error", ruleC05StopOnError, ""},
			{"C03.replay-meta", ruleC04ReplayMeta, ""},
		},
		Explanation: "Decides the structural crash protocol over all paths: the lock file brackets every mutation of a session (taken first in Open, released last and only by a completed Close); on the recovery branch the non-segment files are moved aside before index and log are opened, recovery replays segments in ascending sequence order, sequence ids only grow; a record reaches the log in one WriteAt of the whole encoded record; Put appends to the log before touching the index and Delete writes the delete record inside the index removal; compaction unlinks a source only after a clean end of segment, repoints a slot only after the copy was written, and drops delete records only together with all older segments. (forget-unlink-atomic) a segment's slot is released and its files unlinked in one exclusive section of DB.mu; (open-order, extended) goroutines start only after recovery finished, the lock and its 'already existed' flag come from the same CreateLockFile call; NOT decided: the contents recovered from each crash image; sector-tearing atomicity (relies on the checksum, C08).",
		Assumptions: commonAssumptions,
	})
	register("C11", &propDef{
		Rules: []ruleDef{
			{"C11.chain-exit", ruleC01ChainExit, ""},
			{"C11.array-bounds", ruleArrayBounds, ""},
			{"C11.slot-loop", ruleSlotLoopExits, ""},
			{"C11.cursor", ruleC11Cursor, ""},
			{"C11.guarded", ruleGuarded, ""},
			{"C11.one-section", ruleOneSection, ""},
			{"C11.chain-drain", ruleC11Drain, ""},
			{"C11.split-forward", ruleC01Split, ""},
			{"C11.addressing-writers", ruleAddressingWriters, ""},
			{"C11.copied", ruleC14NoAliasOut, ""},
			{"C11.fs-readers-pure", ruleFSReadersPure, ""},
			{"C11.no-retained-locations", ruleNoRetainedLocations, "primary"},
			{"C11.kernel", ruleKernelShapes("(*pogreb.bucketIterator).next", "(*pogreb.index).newBucketIterator", "(*pogreb.datalog).readKeyValue", "(*pogreb.index).bucketIndex"), ""},
		},
		Explanation: "Decides: the scan walk of a bucket chain cannot end before the end of the chain; the scan position advances by exactly one bucket after a successful fetch of that bucket and is compared with index.numBuckets re-read on every iteration; ErrIterationDone only at the live bound with an empty queue; queued pairs are (copies of) results #0/#1 of readKeyValue for the visited slot; a whole chain is drained inside one shared section of DB.mu with ItemIterator.mu held; a split appends exactly one bucket, updates addressing before redistribution and publishes numBuckets last. (no-retained-locations) the iterator cannot keep index slots between Next calls; (fs-readers-pure) File.Slice/ReadAt implementations do not write receiver state; NOT decided: exactly-once on every quiescent state; at-least-once under every interleaving.",
		Assumptions: commonAssumptions,
	})
	register("C12", &propDef{
		Rules: []ruleDef{
			{"C12", ruleC12, ""},
			{"C12.guarded", ruleGuarded, ""},
			{"C12.write-ahead", ruleC03WriteAhead, ""},
			{"C12.sequence-monotonic", ruleC03SequenceMonotonic, ""},
			{"C12.error-fatal", ruleErrorFatal("(*pogreb.DB).Backup"), "primary"},
			{"C12.older-first", ruleC03OlderFirst, ""},
			{"C12.size-mirror", ruleC04SizeMirror, ""},
			{"C12.balanced", ruleBalanced, ""},
		},
		Explanation: "Decides: Backup holds maintenanceMu for all its file-system calls, guarded accesses and DB.mu acquisitions (compaction excluded for the whole backup, capture included); the copy bounds are file.size of not-full segments captured with DB.mu held; whole-file io.Copy is used only for segments absent from the captured map and io.CopyN is bounded by the captured size; every success return creates the lock file in the backup; the source file system is only opened read-only; datalog state is never read without DB.mu (guarded). (size-mirror, balanced; shared) the captured bound is the maintained file.size; maintenanceMu and DB.mu are released on every path, failing ones included. NOT decided: that the opened backup equals the state at one instant for all schedules.",
		Assumptions: commonAssumptions,
	})
}

func init() {
	register("C08", &propDef{
		Rules: []ruleDef{
			{"C08.layout", ruleRecordLayout, ""},
			{"C08.record-writers", ruleRecordWriters, ""},
			{"C08.gates", ruleC08Gates, ""},
			{"C08.open-order", ruleOpenOrder, ""},
			{"C08.logger-non-nil", ruleLoggerNonNil, ""},
			{"C08.compact-complete", ruleC03CompactComplete, ""},
			{"C08.size-mirror", ruleC04SizeMirror, ""},
			{"C08.alloc-bound", ruleC19AllocBound, ""},
			{"C08.narrowing", ruleC16Narrowing, ""},
		},
		Explanation: "Decides: (layout) by abstract interpretation of slice positions (linear forms over K=len(key), V=len(value)) the record encoder and the decoder used by recovery frame records exactly as documented: keysize u16 LE @0, (type bit 31 | valuesize) u32 LE @2, key @6, value @6+K, CRC32-IEEE u32 LE @6+K+V over [0,6+K+V), total 10+K+V, type bit set/decoded exactly for delete records; (gates) a record is returned and the iterator offset advanced (by 10+K+V) only behind the checksum equality, recovery truncates at that offset, every error the segment iterator can return is one recovery compares against (or the io.ReadFull pass-through with io.EOF and io.ErrUnexpectedEOF both recognised), end-of-segment is reported only at a record boundary, and after a truncation the iterator continues with the next segment. NOT decided: replay equality against an independent decoder on all byte strings; the error-detection strength of CRC-32.",
		Assumptions: commonAssumptions,
	})
	register("C18", &propDef{
		Rules: []ruleDef{
			{"C18.header", ruleC18Header, ""},
			{"C18.bucket", ruleC18Bucket, ""},
			{"C18.record", ruleRecordLayout, ""},
			{"C18.record-writers", ruleRecordWriters, ""},
			{"C18.seal-after-replay", ruleC04SealAfterReplay, ""},
			{"C18.names", ruleC18Names, ""},
			{"C18.gob", ruleC18Gob, ""},
			{"C18.name-families", ruleC15NameFamilies, ""},
			{"C18.sequence-monotonic", ruleC03SequenceMonotonic, ""},
			{"C18.hash-absorption", ruleHashAbsorption, ""},
			{"C18.key-limits", ruleC16Consts, ""},
			{"C18.single-write", ruleC03SingleWrite, ""},
			{"C18.size-mirror", ruleC04SizeMirror, ""},
			{"C18.older-first", ruleC03OlderFirst, ""},
			{"C18.record-validity", ruleC08Gates, ""},
			{"C18.addressing", ruleKernelShapes("(*pogreb.index).bucketIndex", "(*pogreb.bucketIterator).next", "(*pogreb.index).newBucketIterator", "pogreb.encodedRecordSize", "(pogreb.slot).kvSize", "(*pogreb.datalog).readKey", "(*pogreb.datalog).readKeyValue"), ""},
		},
		Explanation: "Decides that the writer-side and reader-side tables of the current code equal the frozen tables of the documented/pinned format v2: header (signature bytes, version 2 LE @8, 512 bytes, written into every new file and checked on every existing one), bucket (31 slots x 16 bytes: hash u32@0, segmentID u16@4, keySize u16@6, valueSize u32@8, offset u32@12, LE; overflow pointer u64 LE @496; bucket i at 512+512*i), record layout (as C08), file names (%05d-%d.psg and the legacy form, .pmt, main.pix, overflow.pix, index.pmt, db.pmt, lock, .bac), gob metadata field names and types, MurmurHash3 constants. Layouts are extracted from the SSA of the marshal/unmarshal functions by an abstract interpreter for slice positions, not matched textually. (hash-absorption) the key hash absorbs its input front to back, each word little-endian, and its cursor advances by the bytes absorbed - the structural part of 'the same hash as the pinned version' (the mixing arithmetic and constants are not decided); (older-first; shared) the order of segments is the order of the sequence ids in their names: the ordering function compares the sequence ids of its two arguments. NOT decided: opening a golden corpus (dynamic); gob wire compatibility beyond field names/types; bucket-addressing arithmetic.",
		Assumptions: commonAssumptions,
	})
}

func init() {
	register("C02", &propDef{
		Rules: []ruleDef{
			{"C02.meta-symmetry", ruleC02MetaSymmetry, ""},
			{"C02.close-persists", ruleCloseOrder, ""},
			{"C02.sync-before-close", ruleC09SyncBeforeClose, ""},
			{"C02.open-order", ruleOpenOrder, ""},
			{"C02.first-bucket", ruleFirstBucket, ""},
			{"C02.names", ruleC18Names, ""},
			{"C02.close-not-internal", ruleCloseNotInternal, ""},
			{"C02.errs", ruleErrs, ""},
			{"C02.swap-never-sealed", ruleC05SwapNeverSealed, ""},
			{"C02.mapping", ruleC17, ""},
			{"C02.remove-order", ruleC15RemoveOrder, ""},
			{"C02.count", ruleC01Count, ""},
			{"C02.name-families", ruleC15NameFamilies, ""},
			{"C02.sequence-monotonic", ruleC03SequenceMonotonic, ""},
		},
		Explanation: "Decides: (meta-symmetry) every field of the persisted metadata structs (indexMeta, dbMeta) is written from, and restored into, the same state field; every index field that changes during a session is persisted; Close and Open agree on the metadata file names and datalog.close writes each segment's own meta under its own name; (close-persists) every success return of Close wrote the db meta, every non-nil segment's meta, the index meta, and released the lock last; (open-order) a directory whose lock file did not pre-exist is opened without recovery, one whose lock file pre-existed is recovered; (errs) no error of a call in package pogreb is dropped on a path that can still report success; (swap-never-sealed) the segment picked as current at Open is one that is not full; (mapping) the memory-mapped file keeps its logical size in step and maps a file whole when it is opened larger than the initial mapping. NOT decided: that reopened contents/Count equal the closed ones for all histories; 'Open+Close changes nothing'.",
		Assumptions: commonAssumptions,
	})
	register("C13", &propDef{
		Rules: []ruleDef{
			{"C13.lock-revalidate", ruleC13Lock, ""},
			{"C13.mem-lock", ruleC13Mem, ""},
			{"C13.open-order", ruleOpenOrder, ""},
			{"C13.close-not-internal", ruleCloseNotInternal, ""},
			{"C13.unlock-owner", ruleCloseOrder, ""},
		},
		Explanation: "Decides for the unix lock implementation (the one that can be built and reasoned about here; windows/plan9 are listed as not decided): success is returned only after a successful exclusive non-blocking flock on the descriptor opened here AND a re-validation, made after the flock, that the path still names the locked inode (os.SameFile of fstat and stat); Unlock unlinks the path before closing (the order the re-validation relies on); the in-memory lock refuses a held lock; Open takes the lock before any other file-system call, touches nothing when the lock is not acquired, recovers iff the lock file pre-existed; only a completed Close releases the lock. These forbid the known path/inode windows; they do NOT prove mutual exclusion under all interleavings, and the 'already existed' flag (stat before create) is reported as advisory only. (existed-fresh) the 'already existed' flag returned with the lock is computed in the attempt that acquired it, not carried around the retry loop.",
		Assumptions: append([]string{"flock semantics of the host OS; os.SameFile compares device+inode"}, commonAssumptions...),
	})
	register("C16", &propDef{
		Rules: []ruleDef{
			{"C16.narrowing", ruleC16Narrowing, ""},
			{"C16.mapping", ruleC17, ""},
			{"C16.const-relations", ruleC16Consts, ""},
			{"C16.reject-before-effect", ruleC16Reject, ""},
			{"C16.match-equal", ruleC01MatchEqual, ""},
			{"C16.layout", ruleRecordLayout, ""},
			{"C16.record-validity", ruleC08Gates, ""},
			{"C16.rollover", ruleC04Rollover, ""},
			{"C16.sizes", ruleKernelShapes("pogreb.encodedRecordSize", "(pogreb.slot).kvSize", "(*pogreb.datalog).readKey", "(*pogreb.datalog).readKeyValue"), ""},
		},
		Explanation: "Decides: (narrowing) every narrowing or sign-changing conversion of a non-constant integer in package pogreb is one of the reviewed sites with a stated bound (guard in Put, bounded decoded source, segment-size guard, comparison idiom backed by the full key comparison), no arithmetic on non-constants is carried out in a type narrower than 32 bits except the reviewed index.level; (const-relations) MaxKeyLength = 65535 fits the 16-bit fields, MaxValueLength = 512 MiB fits the 31-bit field, a maximal record fits the 32-bit offsets, segment ids fit 16 bits; (reject-before-effect) every call made by Put (hashing, locking, log append, index update) is reachable only after both limits were checked against those constants; look-ups compare the full key after the truncated length compare (match-equal); record length fields are laid out as documented (layout). NOT decided: byte-exact round trip of every admissible size through restart and recovery.",
		Assumptions: commonAssumptions,
	})
	register("C17", &propDef{
		Rules: []ruleDef{
			{"C17", ruleC17, ""},
			{"C17.header", ruleC18Header, ""},
			{"C17.sub-paths", ruleSubPaths, ""},
			{"C17.readdir-order", ruleReadDirOrder, ""},
			{"C17.open-flags", ruleOpenFlags, ""},
			{"C17.backup", ruleC12, ""},
			{"C17.size-mirror", ruleC04SizeMirror, ""},
			{"C17.fs-readers-pure", ruleFSReadersPure, ""},
			{"C17.no-alias-out", ruleC14NoAliasOut, ""},
		},
		Explanation: "Decides only sibling agreement of the fs.File implementations on the points the database relies on: every length-changing method of the mapped and the in-memory file maintains its logical size (Truncate sets it to its argument, shrinking included) and the mapped file re-establishes its mapping on every success path; Slice indexes the backing memory only when end <= logical size and returns io.EOF otherwise; a file opened larger than the initial mapping is mapped whole; the mapping is PROT_READ and never stored through; thread-safe readers do not write receiver state; package pogreb never inspects the dynamic type of its file system and never keeps memory returned by Slice (which differs between implementations: private copy / shared buffer / mapping). Equality of results and segment bytes across file systems for all programs is a relational run-time property and is (direntry-info) the in-memory directory entry's Info() succeeds for files without an open handle, like lstat on the OS file systems; (readdir-order) loops over FileSystem.ReadDir's result are left only at their bound or by failing, so the work done does not depend on the listing order of the file system; (open-flags) openFile opens read-only with exactly O_RDONLY and otherwise with O_CREATE|O_RDWR (O_TRUNC for rewritten files). NOT decided.",
		Assumptions: commonAssumptions,
	})
}
