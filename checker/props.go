package main

var commonAssumptions = []string{
	"the Go type checker and go/ssa (x/tools v0.29.0) represent the program faithfully",
	"rule tables (anchors, accepted idioms) were confirmed by reading the tree; an unresolved anchor or an unclassified idiom fails the check (undecided) instead of passing",
	"static analysis only: no pogreb code is executed; the clauses listed as 'not decided' in DESIGN.md section 5 are outside this check",
}

func init() {
	register("C01", &propDef{
		Rules: []ruleDef{
			{"C01.chain-exit", ruleC01ChainExit, ""},
			{"C01.match-equal", ruleC01MatchEqual, ""},
			{"C01.count", ruleC01Count, ""},
			{"C01.overwrite-flag", ruleC01OverwriteFlag, ""},
			{"C01.split", ruleC01Split, ""},
			{"C01.addressing", ruleC01Addressing, ""},
		},
		Explanation: "Decides structural necessary conditions of map semantics of the hash index, for all key sets and hash layouts at once: (chain-exit) no lookup/insert/delete/scan/compaction walk of a bucket chain can end before end-of-chain, an error or a key/record match; (match-equal) a key callback reports a match only behind bytes.Equal(sought key, key stored in the log for that slot); (count, overwrite-flag) index.numKeys moves +1 exactly on insertion of a new key and -1 exactly on a removal, after the bucket write; (split) a split updates the addressing state before redistributing, publishes numBuckets after both writes, frees old overflow buckets after the walk; (addressing) every walk starts at bucketIndex(hash of the key) and Put stores the slot with that hash and the location the log append returned. NOT decided: equality with a reference map for all histories, the redistribution arithmetic itself, the hash function.",
		Assumptions: commonAssumptions,
	})
}
