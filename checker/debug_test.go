package main

import (
	"fmt"
	"testing"
)

func TestDebugWalk(t *testing.T) {
	p, err := Load("/repo", quickConfigs[0], true)
	if err != nil {
		t.Fatal(err)
	}
	f := p.Fn("(*pogreb.DB).Close")
	all, _ := allNodes(p, f)
	g := p.Fn("pogreb.writeGobFile")
	for _, b := range g.Blocks {
		for _, in := range b.Instrs {
			r := false
			for n := range all.Reached {
				if n.In == in {
					r = true
				}
			}
			fmt.Printf("%v b%d %s\n", r, b.Index, in)
		}
	}
}
