#!/bin/bash
# runs every behaviour-preserving refactoring given (*/patch.diff) through all checks; any report is a false alarm
# (except for the patches listed, with the reason, in refactors/EXPECTED_ALARMS.txt). JOBS=n patches at a time (default 4).
cd /verif
one() {
  pf=$1
  out=$(./seedtool.sh detect $pf 2>&1)
  c=$(echo "$out" | grep DETECT | sed 's/.*caught-by://')
  name=$(basename $(dirname $(realpath $pf)))
  if grep -q "^$name " refactors/EXPECTED_ALARMS.txt 2>/dev/null; then
    case "$c" in *NONE*|"") echo "$name: alarms:$c (listed in EXPECTED_ALARMS.txt but silent)";; *) echo "$name: EXPECTED-ALARM:$c";; esac
    return
  fi
  echo "$name: alarms:$c"
  [ -n "$(echo "$out" | grep DETECT)" ] || echo "$name:  ERROR: no verdict for $pf"
  case "$c" in *NONE*) ;; *) echo "$out" | grep -E "^\s+\[" | cut -c1-260 | head -${SHOW:-4} | sed "s/^/$name:/";; esac
}
export -f one
printf '%s\n' "$@" | xargs -P ${JOBS:-4} -I{} bash -c 'one {}' | sort
