#!/bin/bash
# runs every behaviour-preserving refactoring under the given directory (*/patch.diff) through all checks; any report is a false alarm
cd /verif
for pf in "$@"; do
  out=$(./seedtool.sh detect $pf 2>&1)
  c=$(echo "$out" | grep DETECT | sed 's/.*caught-by://')
  echo "$(echo $pf | sed 's#.*/out/##; s#/patch.diff##'): alarms:$c"
  case "$c" in *NONE*) ;; *) echo "$out" | grep -E "^\s+\[" | cut -c1-260 | head -4;; esac
done
