#!/bin/bash
# runs every behaviour-preserving refactoring under the given directory (*/patch.diff) through all checks; any report is a false alarm
cd /verif
for pf in "$@"; do
  out=$(./seedtool.sh detect $pf 2>&1)
  c=$(echo "$out" | grep DETECT | sed 's/.*caught-by://')
  name=$(basename $(dirname $(realpath $pf)))
  if grep -q "^$name " refactors/EXPECTED_ALARMS.txt 2>/dev/null; then
    case "$c" in *NONE*|"") echo "$name: alarms:$c (listed in EXPECTED_ALARMS.txt but silent)";; *) echo "$name: EXPECTED-ALARM:$c";; esac
    continue
  fi
  echo "$(echo $pf | sed 's#.*/out/##; s#/patch.diff##'): alarms:$c"
  [ -n "$(echo "$out" | grep DETECT)" ] || echo "  ERROR: no verdict for $pf"
  case "$c" in *NONE*) ;; *) echo "$out" | grep -E "^\s+\[" | cut -c1-260 | head -4;; esac
done
