#!/bin/sh
# run.sh <property> [quick|thorough] [extra pvcheck flags]
# Static checks only: parses and type-checks /repo's current working tree, builds SSA, decides the rules.
set -e
export GOFLAGS=-mod=mod GOPROXY=off GOSUMDB=off GOTOOLCHAIN=local GOWORK=off
unset GOOS GOARCH
HERE=$(cd "$(dirname "$0")" && pwd)
PROP=$1
TIER=${2:-${VERIF_TIER:-quick}}
[ $# -ge 2 ] && shift 2 || shift 1
(cd "$HERE/checker" && go build -o "$HERE/bin/pvcheck" .) || { echo "cannot build the checker"; exit 2; }
set +e
"$HERE/bin/pvcheck" -repo "${VERIF_REPO:-/repo}" -out "$HERE" -property "$PROP" -tier "$TIER" "$@"
rc=$?
if [ "$TIER" = thorough ] && [ -z "$VERIF_NO_SELFVAL" ]; then
  # informational both-ways validation of the checker against the seeded / refactoring corpus (scratch copies, removed afterwards)
  python3 "$HERE/selfval.py" "$PROP" || true
fi
exit $rc
