#!/usr/bin/env python3
"""Regenerates MANIFEST.json from the table below (kept next to the checker so they move together)."""
import json, subprocess, sys

CLAIMED = {
 # id: (technique, level text, level note, design ref)
 "C01": ("SSA path/edge-removal reachability over all bucket-chain walkers, key callbacks, key-counter stores and split()",
         "Structural necessary conditions of map semantics, decided for every path of the index code (hence for every key set and hash layout): no chain walk ends early, matches need a full key comparison, the key counter moves exactly with insertions/removals, splits redistribute with updated addressing, walks start at bucketIndex(hash). Does not decide equality with a reference map.",
         "go/types + go/ssa faithful; anchors typed and named (fail closed); behaviour of a whole history is not decided"),
 "C02": ("SSA def-use symmetry check of persisted metadata, abstract file-name evaluation, interprocedural Close/Open order analysis, dropped-error analysis",
         "Structural necessary conditions of clean restart: writer/reader symmetry of every persisted field and file name, every mutable index field persisted, Close persists everything before releasing the lock, no recovery without a pre-existing lock file, no dropped error on a success path, mapped files opened large are mapped whole. Does not decide equality of reopened contents for all histories.",
         "go/ssa faithful; gob encodes exported fields by name"),
 "C03": ("interprocedural (call-string cloned) path analysis of Open/Close/compact/recover; SSA dominance checks for write-ahead and single-write",
         "Structural crash protocol for all paths: lock file brackets the session, stale index moved aside before opening on the recovery branch, replay oldest-first with monotone sequence ids, one WriteAt per record, log before index, source unlinked only after a clean end of segment, repoint only after the copy, delete records dropped only with all older segments. Does not decide the contents recovered from each crash image.",
         "process-crash model as written; directory operations atomic; go/ssa faithful"),
 "C04": ("SSA path analysis: every length-changing call on the fs.File embedded in a pogreb.file must be followed by an assignment of file.size on its success paths; interprocedural Close-order analysis for the lock file",
         "Structural necessary conditions of repeated-crash safety: the in-memory append position can never diverge from the file length, only a completed Close removes the lock file. Does not decide contents along chains of crash images.",
         "go/ssa faithful; accepted exceptions (in-place bucket rewrite, function-local gob writer) are a reviewed table"),
 "C05": ("SSA dominance/def-use analysis of compact/promoteRecord/swapSegment/pickForCompaction plus path-sensitive lockset analysis",
         "Invariants that make per-record compaction safe under interleaved writers: seal first (under the exclusive lock), never append to / install a sealed segment, liveness on (hash, segment, offset), repoint to exactly the copy after a successful copy, source removed only after a clean end of segment, older segments first, all shared accesses under DB.mu. Does not decide equality of contents before/during/after compaction for all schedules.",
         "go/ssa faithful; pickForCompaction's delete branch is recognised by shape (fail closed)"),
 "C06": ("call-string-cloned interprocedural must-pass-through analysis (Sync before success return / before marking a segment full / between record copy and unlink)",
         "Structural necessary conditions of durability of synced writes under the stated power-loss model, for all paths: Sync reaches fsync of the current segment, a segment is sealed only after a successful Sync of it, compaction syncs the copies before unlinking the source. Does not decide the contents of power-loss images.",
         "power-loss model as written in the property; fsync honours its contract; go/ssa faithful"),
 "C07": ("path-sensitive lockset analysis on the call-string-cloned interprocedural graph of every API entry",
         "Only the critical-section structure linearizability needs: every access to guarded state and every I/O on shared files holds DB.mu in the right mode, each operation is one critical section, locks are balanced on every path, thread-safe file readers are pure. Linearizability of histories itself is not decided.",
         "guarded-state table confirmed by reading (DESIGN.md 2.2); field-based lock identity (one DB)"),
 "C08": ("abstract interpretation of slice positions (linear forms) in encoder/decoder compared with the documented record format; SSA control-dependence on the checksum; error-set inclusion; phi-sensitive path search after truncation",
         "The decoder used by recovery frames and validates records exactly as the encoder writes them and as format v2 documents; records surface and the offset advances only behind the checksum equality; truncation at that offset; every tail error is one recovery recognises; recovery continues with the next segment. Does not decide replay equality on all byte strings nor CRC strength.",
         "contracts of io.ReadFull and crc32.ChecksumIEEE; go/ssa faithful"),
 "C09": ("call-string-cloned interprocedural path analysis of DB.Close with access-path receiver identity (Sync-before-Close per file, lock release last)",
         "Structural necessary conditions of 'Close is a durable checkpoint': on every success path of Close each written file is synced before it is closed, with no write in between, all steps precede the lock release and nothing follows it. Does not decide that every power-loss image reopens to the closed contents.",
         "power-loss model as written; receiver identity by access path through the call string"),
 "C10": ("path-sensitive lockset analysis (guarded accesses, balance, lock-order graph, waits under lock), goroutine lifecycle dominance checks, value-flow check that mapped memory is only read under the lock",
         "The lock discipline race- and deadlock-freedom need, for all paths including error paths; lifecycle of the only goroutine; Slice memory read only under DB.mu. Known finding: Backup/FileSize race on fs.Mem. Absence of panics/faults in general and progress are not decided.",
         "guarded-state table; sync.Mutex semantics; findings listed in known_findings.txt"),
 "C11": ("SSA edge-removal reachability (chain walk), def-use checks of the scan cursor and queued items, lockset analysis of the chain drain",
         "Every pair returned is a copy of what readKeyValue returned for a visited slot; a chain is drained in one shared section; buckets are visited by +1 after a successful fetch with the bound re-read each iteration; splits only append. Exactly-once / at-least-once for all states and interleavings are not decided.",
         "go/ssa faithful"),
 "C12": ("lockset analysis of Backup, SSA control-dependence of the bounded/unbounded copy on the captured-size map, interprocedural must-pass for the lock file, access-path check that the source is read-only",
         "Snapshot bound captured under the lock for not-full segments, whole-file copy only for segments sealed at capture, maintenanceMu held for the whole backup including the capture, lock file created in the backup, source only opened read-only. Point-in-time equality for all schedules is not decided.",
         "go/ssa faithful"),
 "C13": ("SSA control-dependence and ordering analysis of the unix lock acquisition/release; interprocedural Open/Close order analysis",
         "Forbids the known path/inode time-of-check windows: success only after flock and a post-flock SameFile re-validation, Unlock unlinks before closing, Open touches nothing without the lock and recovers iff the lock file pre-existed, only Close unlocks. Does not prove mutual exclusion for all interleavings; windows/plan9 not decided; 'existed' flag advisory.",
         "flock and os.SameFile semantics of the host OS"),
 "C14": ("whole-package field-based value-flow (taint) analysis with VTA-resolved callbacks, combined with lockset analysis",
         "Within the stated flow model: Slice memory never reaches an API result or any struct field, caller slices are never retained, Slice memory is only read under DB.mu. The claim is about the flow model (no unsafe/reflection in package pogreb), not about sampled histories.",
         "value-flow model assumptions listed in the evidence"),
 "C15": ("abstract evaluation of file-name expressions through the call string (name families), SSA path analysis of datalog.curSeg uses and of removeSegment/compact ordering",
         "Everything removed is something created, every per-segment file family is removed with its segment, the current segment is never used for I/O after compaction sealed and removed it, segments are counted as compacted only after removal. Boundedness of directory size, descriptors or mappings is not decided.",
         "name abstraction covers the constructors used in this package"),
 "C16": ("enumeration of every narrowing/sign-changing conversion and narrow-type arithmetic against a reviewed table; constant relations by go/constant; SSA control-dependence of every call of Put on both limit checks",
         "No length is narrowed into a 16/31/32-bit field without a stated bound, the public limits agree with the field widths, an over-long Put is rejected before any effect, look-ups compare the full key. Byte-exact round trip of all sizes is not decided.",
         "reviewed conversion table keyed by function and source shape (fails closed on new sites)"),
 "C17": ("sibling cross-check of the fs.File implementations by SSA analysis (size bookkeeping, Slice guards, mapping length, read-only mapping, reader purity) plus value-flow check that package pogreb never keeps Slice memory",
         "Sibling agreement on the points the database relies on. Equality of results and segment bytes across file systems for all programs is a relational run-time property and is not decided.",
         "go/ssa faithful; unix build of the mapping code (windows variant loaded in the thorough tier)"),
 "C18": ("layout extraction by abstract interpretation of slice positions in the marshal/unmarshal functions, constants by go/constant, struct field tables by go/types, compared with frozen tables of format v2",
         "Writer- and reader-side tables of the current code equal the documented/pinned format: header, bucket, record, file names, gob field sets, hash constants. Opening a golden corpus is dynamic and out of family.",
         "frozen tables taken from the pinned tree and docs/design.md"),
 "C19": ("forward value-flow (taint) analysis from decoded length fields to allocation sizes with a polarity-checked, wrap-free bound guard",
         "For every function reachable from recovery/segment iteration no allocation is sized by a length decoded from file bytes unless control dependent on 'decoded <= bound not derived from file contents'; every tail error is recognised by recovery (shared with C08). Total work/time is not decided.",
         "taint sources: encoding/binary UintN decoders; sinks: make, Buffer.Grow, io.CopyN"),
}

NOT_APPLICABLE = {}

def main():
    props = [json.loads(l) for l in open('/verif/properties.jsonl')]
    checks = []
    na = []
    for p in props:
        i = p['id']
        if i in CLAIMED:
            tech, text, note = CLAIMED[i]; ref = "5 " + i
            checks.append({
                "property_id": i,
                "quick_cmd": f"./run.sh {i} quick",
                "thorough_cmd": f"./run.sh {i} thorough",
                "evidence_file": f"/verif/evidence/{i}.json",
                "replay_cmd_template": f"./run.sh {i} quick  # report: {{path}}",
                "engine": "pvcheck",
                "level_claimed": {"category": "other", "text": text, "design_ref": "DESIGN.md section " + ref},
                "level_note": note,
                "technique": "static analysis: " + tech,
            })
        else:
            na.append({"property_id": i, "reason": NOT_APPLICABLE.get(i, "static check not built yet in this round; see DESIGN.md section 5 for the structural clauses planned")})
    m = {
        "version": 1,
        "setup_cmd": "cd /verif/checker && GOFLAGS=-mod=mod GOPROXY=off GOSUMDB=off GOTOOLCHAIN=local GOWORK=off go build -o /verif/bin/pvcheck .",
        "hooks": {
            "guard": "verif",
            "enable": "none needed: the checks are static and read /repo's sources; no hook files exist (the tag 'verif' is only loaded by the thorough tier to show it is inert)",
            "baseline_off_cmd": "cd /repo && GOFLAGS=-mod=mod GOPROXY=off GOSUMDB=off go test -count=1 ./...",
            "source_commits": [],
            "add_only": True,
        },
        "engines": [{
            "name": "pvcheck", "path": "/verif/checker",
            "serves_properties": sorted(CLAIMED.keys()),
            "kind_free_text": "repository-specific static analyser (go/packages + go/types + go/ssa, x/tools v0.29.0): path, dominance, lockset, value-flow, layout and name-family rules over the current source of /repo",
        }],
        "checks": checks,
        "not_applicable": na,
        "notes": "All checks are static (no pogreb code is executed). Genuine defects found by the rules were repaired by 'fix:' commits in /repo and are listed as 'fixed:' in /verif/known_findings.txt; remaining ones are 'finding:' lines there.",
    }
    json.dump(m, open('/verif/MANIFEST.json', 'w'), indent=1)
    print("checks:", len(checks), "not_applicable:", len(na))

if __name__ == '__main__':
    main()
