#!/usr/bin/env python3
"""Regenerates MANIFEST.json from the table below (kept next to the checker so they move together)."""
import json, subprocess, sys

CLAIMED = {
 # id: (technique, level text, level note, design ref)
 "C01": ("custom SSA path/dominance analysis over all bucket-chain walkers, key callbacks and key-counter stores (go/ssa)",
         "Structural necessary conditions of map semantics, decided for every path of the index code (hence for every key set and hash layout): no chain walk ends early, matches need a full key comparison, the key counter moves exactly with insertions/removals, splits redistribute with updated addressing. Does not decide equality with a reference map.",
         "go/types + go/ssa faithful; anchors typed and named (fail closed); behaviour of a whole history is not decided", "5 C01"),
}

NOT_APPLICABLE = {}

def main():
    props = [json.loads(l) for l in open('/verif/properties.jsonl')]
    checks = []
    na = []
    for p in props:
        i = p['id']
        if i in CLAIMED:
            tech, text, note, ref = CLAIMED[i]
            checks.append({
                "property_id": i,
                "quick_cmd": f"./run.sh {i} quick",
                "thorough_cmd": f"./run.sh {i} thorough",
                "evidence_file": f"/verif/evidence/{i}.json",
                "replay_cmd_template": f"./run.sh {i} quick  # report: {{path}}",
                "engine": "pvcheck",
                "level_claimed": {"category": "other", "text": text, "design_ref": "DESIGN.md section " + ref},
                "level_note": note,
                "technique": "static analysis: " + tech,
            })
        else:
            na.append({"property_id": i, "reason": NOT_APPLICABLE.get(i, "static check not built yet in this round; see DESIGN.md section 5 for the structural clauses planned")})
    m = {
        "version": 1,
        "setup_cmd": "cd /verif/checker && GOFLAGS=-mod=mod GOPROXY=off GOSUMDB=off GOTOOLCHAIN=local GOWORK=off go build -o /verif/bin/pvcheck .",
        "hooks": {
            "guard": "verif",
            "enable": "none needed: the checks are static and read /repo's sources; no hook files exist (the tag 'verif' is only loaded by the thorough tier to show it is inert)",
            "baseline_off_cmd": "cd /repo && GOFLAGS=-mod=mod GOPROXY=off GOSUMDB=off go test -count=1 ./...",
            "source_commits": [],
            "add_only": True,
        },
        "engines": [{
            "name": "pvcheck", "path": "/verif/checker",
            "serves_properties": sorted(CLAIMED.keys()),
            "kind_free_text": "repository-specific static analyser (go/packages + go/types + go/ssa, x/tools v0.29.0): path, dominance, lockset, value-flow, layout and name-family rules over the current source of /repo",
        }],
        "checks": checks,
        "not_applicable": na,
        "notes": "All checks are static (no pogreb code is executed). Genuine defects found by the rules were repaired by 'fix:' commits in /repo and are listed as 'fixed:' in /verif/known_findings.txt; remaining ones are 'finding:' lines there.",
    }
    json.dump(m, open('/verif/MANIFEST.json', 'w'), indent=1)
    print("checks:", len(checks), "not_applicable:", len(na))

if __name__ == '__main__':
    main()
