#!/usr/bin/env python3
"""Regenerates MANIFEST.json from the table below (kept next to the checker so they move together)."""
import json, subprocess, sys

CLAIMED = {
 # id: (technique, level text, level note, design ref)
 "C01": ("custom SSA path/dominance analysis over all bucket-chain walkers, key callbacks and key-counter stores (go/ssa)",
         "Structural necessary conditions of map semantics, decided for every path of the index code (hence for every key set and hash layout): no chain walk ends early, matches need a full key comparison, the key counter moves exactly with insertions/removals, splits redistribute with updated addressing. Does not decide equality with a reference map.",
         "go/types + go/ssa faithful; anchors typed and named (fail closed); behaviour of a whole history is not decided", "5 C01"),
 "C04": ("SSA path analysis: every length-changing call on the fs.File embedded in a pogreb.file must be followed by an assignment of file.size on its success paths; interprocedural Close-order analysis for the lock file",
         "Structural necessary conditions of repeated-crash safety: the in-memory append position can never diverge from the file length (the mechanism that lost acknowledged writes after a torn-tail recovery), and only a completed Close removes the lock file. Does not decide contents along chains of crash images.",
         "go/ssa faithful; accepted exceptions (in-place bucket rewrite, function-local gob writer) are a reviewed table", "5 C04"),
 "C06": ("call-string-cloned interprocedural must-pass-through analysis (Sync before success return / before marking a segment full / between record copy and unlink)",
         "Structural necessary conditions of durability of synced writes under the stated power-loss model, for all paths: Sync reaches fsync of the current segment, a segment is sealed only after a successful Sync of it, compaction syncs the copies before unlinking the source. Does not decide the contents of power-loss images.",
         "power-loss model as written in the property; fsync honours its contract; go/ssa faithful", "5 C06"),
 "C09": ("call-string-cloned interprocedural path analysis of DB.Close with access-path receiver identity (Sync-before-Close per file, lock release last)",
         "Structural necessary conditions of 'Close is a durable checkpoint': on every success path of Close each written file is synced before it is closed, with no write in between, all steps precede the lock release and nothing follows it. Does not decide that every power-loss image reopens to the closed contents.",
         "power-loss model as written; receiver identity by access path through the call string (no aliasing of file handles in this code base)", "5 C09"),
 "C15": ("abstract evaluation of file-name expressions through the call string (name families), SSA path analysis of datalog.curSeg uses and of removeSegment/compact ordering",
         "Structural necessary conditions: everything removed is something created, every per-segment file family is removed with its segment, the current segment is never used for I/O after compaction sealed and removed it, segments are counted as compacted only after removal. Does not decide boundedness of directory size, descriptors or mappings.",
         "go/ssa faithful; name abstraction covers the constructors used in this package (constants, concatenation, segmentName, segment.name, directory entries)", "5 C15"),
 "C19": ("forward value-flow (taint) analysis from decoded length fields to allocation sizes with a polarity-checked bound guard",
         "Decides for every function reachable from recovery/segment iteration that no allocation is sized by a length decoded from file bytes unless control dependent on 'decoded <= bound not derived from file contents'. Does not decide total work/time.",
         "taint sources: encoding/binary UintN decoders; sinks: make, Buffer.Grow, io.CopyN; go/ssa faithful", "5 C19"),
}

NOT_APPLICABLE = {}

def main():
    props = [json.loads(l) for l in open('/verif/properties.jsonl')]
    checks = []
    na = []
    for p in props:
        i = p['id']
        if i in CLAIMED:
            tech, text, note, ref = CLAIMED[i]
            checks.append({
                "property_id": i,
                "quick_cmd": f"./run.sh {i} quick",
                "thorough_cmd": f"./run.sh {i} thorough",
                "evidence_file": f"/verif/evidence/{i}.json",
                "replay_cmd_template": f"./run.sh {i} quick  # report: {{path}}",
                "engine": "pvcheck",
                "level_claimed": {"category": "other", "text": text, "design_ref": "DESIGN.md section " + ref},
                "level_note": note,
                "technique": "static analysis: " + tech,
            })
        else:
            na.append({"property_id": i, "reason": NOT_APPLICABLE.get(i, "static check not built yet in this round; see DESIGN.md section 5 for the structural clauses planned")})
    m = {
        "version": 1,
        "setup_cmd": "cd /verif/checker && GOFLAGS=-mod=mod GOPROXY=off GOSUMDB=off GOTOOLCHAIN=local GOWORK=off go build -o /verif/bin/pvcheck .",
        "hooks": {
            "guard": "verif",
            "enable": "none needed: the checks are static and read /repo's sources; no hook files exist (the tag 'verif' is only loaded by the thorough tier to show it is inert)",
            "baseline_off_cmd": "cd /repo && GOFLAGS=-mod=mod GOPROXY=off GOSUMDB=off go test -count=1 ./...",
            "source_commits": [],
            "add_only": True,
        },
        "engines": [{
            "name": "pvcheck", "path": "/verif/checker",
            "serves_properties": sorted(CLAIMED.keys()),
            "kind_free_text": "repository-specific static analyser (go/packages + go/types + go/ssa, x/tools v0.29.0): path, dominance, lockset, value-flow, layout and name-family rules over the current source of /repo",
        }],
        "checks": checks,
        "not_applicable": na,
        "notes": "All checks are static (no pogreb code is executed). Genuine defects found by the rules were repaired by 'fix:' commits in /repo and are listed as 'fixed:' in /verif/known_findings.txt; remaining ones are 'finding:' lines there.",
    }
    json.dump(m, open('/verif/MANIFEST.json', 'w'), indent=1)
    print("checks:", len(checks), "not_applicable:", len(na))

if __name__ == '__main__':
    main()
