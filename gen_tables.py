#!/usr/bin/env python3
"""Fills the ROUNDn_TABLE placeholders / regenerates the round 4-6 tables of DESIGN.md section 0 from seeded/*/meta.json
and the detection matrix printed by seedall.sh (argument: its output file)."""
import json, os, re, sys
here = os.path.dirname(os.path.abspath(__file__))
matrix = {}
for ln in open(sys.argv[1]):
    m = re.match(r"(C\d\d-[a-z]): target=(C\d\d) caught-by:(.*)$", ln.rstrip("\n"))
    if not m:
        continue
    sid, tgt, rest = m.groups()
    flag = ""
    for f in ("TARGET-MISS", "EXPECTED-MISS"):
        if f in rest:
            flag = f
            rest = rest.replace(f, "")
    props = rest.split()
    props = ([tgt] if tgt in props else []) + [p for p in props if p != tgt]
    matrix[sid] = (props, flag)

def table(letters):
    rows = ["| seed | change (from its meta.json) | reported by (target first) |", "|---|---|---|"]
    for d in sorted(os.listdir(os.path.join(here, "seeded"))):
        if not re.match(r"C\d\d-[a-z]$", d) or d[-1] not in letters:
            continue
        meta = json.load(open(os.path.join(here, "seeded", d, "meta.json")))
        s = " ".join(str(meta.get("summary", "")).split()).replace("|", "/")
        if len(s) > 150:
            s = s[:150] + "..."
        props, flag = matrix.get(d, ([], "not run"))
        rep = " ".join(props) if props else "-"
        if flag == "EXPECTED-MISS":
            rep += " (target not among them: expected miss)" if props else "- (expected miss)"
        elif flag:
            rep += " **" + flag + "**"
        rows.append("| %s | %s | %s |" % (d, s, rep))
    return "\n".join(rows)

p = os.path.join(here, "DESIGN.md")
s = open(p).read()
for name, letters in (("ROUND4", "gh"), ("ROUND5", "ij"), ("ROUND6", "kl"), ("ROUND7", "mn")):
    begin, end = "<!-- %s_TABLE -->" % name, "<!-- /%s_TABLE -->" % name
    block = begin + "\n" + table(letters) + "\n" + end
    if name + "_TABLE\n" in s and begin not in s:
        s = s.replace(name + "_TABLE\n", block + "\n", 1)
    elif begin in s:
        s = s[:s.index(begin)] + block + s[s.index(end) + len(end):]
open(p, "w").write(s)
print("tables written:", {k: len([d for d in matrix if d[-1] in l]) for k, l in (("r4", "gh"), ("r5", "ij"), ("r6", "kl"), ("r7", "mn"))})
