#!/usr/bin/env python3
"""Thorough-tier self-validation of the checker (informational; never changes a check's exit code).

For property Cxx: every seeded change /verif/seeded/Cxx-*/patch.diff must make the Cxx check fail, every behaviour-preserving
refactoring /verif/refactors/*/patch.diff must leave it silent. Each patch is applied to a throw-away copy of /repo's working
tree (mktemp, removed afterwards); patches that do not apply to the current tree are counted as skipped. The outcome is
written into the evidence file under coverage.self_validation."""
import glob, json, os, shutil, subprocess, sys, tempfile
from concurrent.futures import ThreadPoolExecutor

def main():
    prop = sys.argv[1]
    repo = os.environ.get("VERIF_REPO", "/repo")
    here = os.path.dirname(os.path.abspath(__file__))
    ev_path = os.path.join(here, "evidence", prop + ".json")
    patches = [("seed", p) for p in sorted(glob.glob(os.path.join(here, "seeded", prop + "-*", "patch.diff")))]
    refs = sorted(glob.glob(os.path.join(here, "refactors", "*", "patch.diff")))
    # a rotating third of the refactoring corpus per property keeps the thorough tier short; reftest.sh runs all of them
    k = int(prop[1:]) % 3 if os.environ.get("VERIF_SELFVAL_ALL") is None else None
    if k is not None:
        refs = [p for i, p in enumerate(refs) if i % 3 == k]
    patches += [("refactor", p) for p in refs]
    res = {"seeds": {}, "refactors": {}}
    expected = set()
    try:
        for ln in open(os.path.join(here, "seeded", "EXPECTED_MISSES.txt")):
            if ln.strip() and not ln.startswith("#"):
                expected.add(ln.split()[0])
    except OSError:
        pass

    expected_alarm = set()
    try:
        for ln in open(os.path.join(here, "refactors", "EXPECTED_ALARMS.txt")):
            if ln.strip() and not ln.startswith("#"):
                expected_alarm.add(ln.split()[0])
    except OSError:
        pass

    def one(item):
        kind, pf = item
        name = os.path.basename(os.path.dirname(pf))
        tmp = tempfile.mkdtemp(prefix="pvself-")
        try:
            dst = os.path.join(tmp, "repo")
            shutil.copytree(repo, dst, ignore=shutil.ignore_patterns(".git"))
            if subprocess.run(["git", "apply", pf], cwd=dst, capture_output=True).returncode != 0:
                return kind, name, "skipped (patch does not apply to the current tree)"
            out = os.path.join(tmp, "out")
            os.makedirs(out)
            shutil.copy(os.path.join(here, "known_findings.txt"), out)
            rc = subprocess.run([os.path.join(here, "bin", "pvcheck"), "-repo", dst, "-out", out, "-property", prop, "-tier", "quick"],
                                capture_output=True, text=True).returncode
            if kind == "seed":
                if rc == 0 and name in expected:
                    return kind, name, "not reported (expected, see seeded/EXPECTED_MISSES.txt)"
                return kind, name, "reported" if rc == 1 else ("MISSED" if rc == 0 else "checker error")
            if rc == 1 and name in expected_alarm:
                return kind, name, "alarm (expected, see refactors/EXPECTED_ALARMS.txt)"
            return kind, name, "silent" if rc == 0 else ("FALSE ALARM" if rc == 1 else "checker error")
        finally:
            shutil.rmtree(tmp, ignore_errors=True)

    with ThreadPoolExecutor(max_workers=int(os.environ.get("VERIF_SELFVAL_JOBS", "6"))) as ex:
        for kind, name, verdict in ex.map(one, patches):
            res[kind + "s"][name] = verdict
    summary = {
        "seeds_reported": sum(1 for v in res["seeds"].values() if v == "reported"),
        "seeds_missed": sum(1 for v in res["seeds"].values() if v == "MISSED"),
        "refactors_silent": sum(1 for v in res["refactors"].values() if v == "silent"),
        "refactors_false_alarm": sum(1 for v in res["refactors"].values() if v == "FALSE ALARM"),
        "skipped": sum(1 for d in res.values() for v in d.values() if v.startswith("skipped")),
    }
    try:
        ev = json.load(open(ev_path))
        ev["coverage"]["self_validation"] = {"summary": summary, "detail": res,
            "note": "informational: seeded changes targeted at this property must be reported by this check, behaviour-preserving refactorings must not; the exit code of the check is decided only by the analysis of /repo"}
        json.dump(ev, open(ev_path, "w"), indent=1)
    except Exception as e:
        print("self-validation: cannot update evidence:", e)
    print("self-validation %s: %s" % (prop, json.dumps(summary)))

if __name__ == "__main__":
    main()
