#!/bin/bash
# runs every seeded change through all claimed checks (scratch worktrees; /repo untouched) and prints a detection matrix
cd /verif
for d in seeded/*/; do id=$(basename $d); [ -f $d/patch.diff ] || continue; echo "$id: $(./seedtool.sh detect $PWD/$d/patch.diff 2>&1 | grep DETECT | sed 's/.*caught-by://')"; done
