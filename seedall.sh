#!/bin/bash
# runs every seeded change through all claimed checks (scratch worktrees; /repo untouched) and prints a detection matrix:
#   <seed id>: target=<property> caught-by: <properties whose check fails>   [TARGET-MISS when the targeted property's own check passes]
# JOBS=n runs n seeds at a time (default 3; one run of the checker uses 3-4 cores).
cd /verif
one() {
  d=$1; id=$(basename $d); [ -f $d/patch.diff ] || exit 0
  tgt=${id%%-*}
  c=$(./seedtool.sh detect $PWD/$d/patch.diff 2>&1 | grep DETECT | sed 's/.*caught-by://')
  case "$c" in ""|*PATCH-DOES-NOT-APPLY*|*CHECKER-ERROR*) sleep 2; c=$(./seedtool.sh detect $PWD/$d/patch.diff 2>&1 | grep DETECT | sed 's/.*caught-by://');; esac
  miss=""; case " $c " in *" $tgt "*) ;; *) miss="  TARGET-MISS"; grep -q "^$id " seeded/EXPECTED_MISSES.txt && miss="  EXPECTED-MISS";; esac
  echo "$id: target=$tgt caught-by:$c$miss"
}
export -f one
# each result is appended to a scratch file as it arrives (a killed run keeps what it had); ONLY=regex restricts the seeds
tmp=$(mktemp /tmp/seedall.XXXXXX)
ls -d seeded/*/ | grep -E "${ONLY:-.}" | xargs -P ${JOBS:-3} -I{} bash -c 'one {} >> '$tmp
sort $tmp; rm -f $tmp
