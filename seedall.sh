#!/bin/bash
# runs every seeded change through all claimed checks (scratch worktrees; /repo untouched) and prints a detection matrix:
#   <seed id>: target=<property> caught-by: <properties whose check fails>   [TARGET-MISS when the targeted property's own check passes]
cd /verif
for d in seeded/*/; do id=$(basename $d); [ -f $d/patch.diff ] || continue
  tgt=${id%%-*}
  c=$(./seedtool.sh detect $PWD/$d/patch.diff 2>&1 | grep DETECT | sed 's/.*caught-by://')
  miss=""; case " $c " in *" $tgt "*) ;; *) miss="  TARGET-MISS"; grep -q "^$id " seeded/EXPECTED_MISSES.txt && miss="  EXPECTED-MISS";; esac
  echo "$id: target=$tgt caught-by:$c$miss"
done
